#!/venv/bin/python
"""Entry point:  check.py C07 --tier quick|thorough [--replay FILE]

Tests whatever is in $ODFDO_SRC (default /repo/src): importing the package is
the rebuild.  VERIF_SEED selects the random part, VERIF_TIER overrides --tier.
"""
import argparse
import os
import sys
from pathlib import Path

ROOT = Path(__file__).resolve().parent


def _bootstrap(deps):
    """After a fresh restore /venv may lack hypothesis: install it (offline wheelhouse) into .deps, once, under a lock."""
    import importlib.util

    if importlib.util.find_spec("hypothesis") is not None or (deps / "hypothesis").is_dir():
        return
    import fcntl
    import subprocess

    deps.mkdir(exist_ok=True)
    with open(deps / ".lock", "w") as lock:
        fcntl.flock(lock, fcntl.LOCK_EX)
        if not (deps / "hypothesis").is_dir():
            subprocess.run([sys.executable, "-m", "pip", "install", "--no-index", "--find-links", "/opt/veriftools/wheels",
                            "--target", str(deps), "hypothesis"], stdout=subprocess.DEVNULL, stderr=subprocess.DEVNULL, check=False)


def main():
    ap = argparse.ArgumentParser()
    ap.add_argument("prop")
    ap.add_argument("--tier", default=None)
    ap.add_argument("--replay", default=None)
    ap.add_argument("--shards", type=int, default=None)
    a = ap.parse_args()
    tier = a.tier or os.environ.get("VERIF_TIER") or "quick"
    if tier not in ("quick", "thorough"):
        tier = "quick"
    src = os.environ.get("ODFDO_SRC", "/repo/src")
    if os.environ.get("PYTHONHASHSEED") != "0" or os.environ.get("ODFDO_VERIF") != "1":
        env = dict(os.environ, PYTHONHASHSEED="0", PYTHONDONTWRITEBYTECODE="1", ODFDO_VERIF="1")
        os.execve(sys.executable, [sys.executable, *sys.argv], env)
    deps = ROOT / ".deps"
    _bootstrap(deps)
    sys.path[:0] = [src, str(ROOT)] + ([str(deps)] if deps.is_dir() else [])
    try:
        seed = int(os.environ.get("VERIF_SEED", "1"))
    except ValueError:
        seed = 1
    prop = a.prop.upper()
    mod_name = f"props.{prop.lower()}"
    try:
        import odfdo

        if not str(Path(odfdo.__file__).resolve()).startswith(str(Path(src).resolve())):
            print(f"HARNESS ERROR: odfdo imported from {odfdo.__file__}, not {src}", file=sys.stderr)
            return 2
        import hypothesis  # noqa: F401
        from lib import harness
    except Exception as e:  # import problems are harness errors, never violations
        import traceback

        traceback.print_exc()
        print(f"HARNESS ERROR: {e}", file=sys.stderr)
        return 2
    try:
        if a.replay:
            return harness.run_replay(mod_name, prop, a.replay)
        return harness.run_property(mod_name, prop, tier, seed, a.shards)
    except Exception as e:
        import traceback

        traceback.print_exc()
        print(f"HARNESS ERROR: {e}", file=sys.stderr)
        return 2


if __name__ == "__main__":
    sys.exit(main())
