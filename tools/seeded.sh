#!/bin/sh
# tools/seeded.sh [ids...] : run each seeded change against the check that is meant to catch it.
# A scratch copy of /repo/src is made under /tmp, the patch applied there (never in /repo), the quick check run with
# ODFDO_SRC pointing at the copy, and the copy removed.  Prints one line per seeded change; exit 1 if one is missed.
cd "$(dirname "$0")/.." || exit 1
ids="$*"; [ -z "$ids" ] && ids=$(ls seeded)
miss=0
for id in $ids; do
  prop=$(/venv/bin/python -c "import json;print(json.load(open('seeded/$id/meta.json'))['caught_by'])")
  tmp=$(mktemp -d /tmp/seed-XXXXXX)
  cp -r /repo/src "$tmp/src"
  if ! (cd "$tmp" && patch -p1 -s < "$OLDPWD/seeded/$id/patch.diff"); then echo "$id: patch does not apply"; rm -rf "$tmp"; miss=1; continue; fi
  out=$(ODFDO_SRC="$tmp/src" /venv/bin/python check.py "$prop" --tier quick 2>/dev/null | grep -c "^VIOLATION")
  rm -rf "$tmp"
  if [ "$out" -gt 0 ]; then echo "$id: caught by $prop ($out violation lines)"; else echo "$id: MISSED by $prop"; miss=1; fi
done
rm -rf replays/*
exit $miss
