#!/bin/sh
# Offline setup after a fresh restore: hypothesis into /venv if missing, atheris into .deps (optional).
cd "$(dirname "$0")/.." || exit 1
/venv/bin/python -c "import hypothesis" 2>/dev/null || \
  /venv/bin/pip install --no-index --find-links /opt/veriftools/wheels hypothesis || exit 1
if [ ! -d .deps/atheris ]; then
  /venv/bin/pip install --no-index --find-links /opt/veriftools/wheels --target .deps atheris >/dev/null 2>&1 || \
    echo "atheris not installable: thorough tiers fall back to hypothesis only"
fi
/venv/bin/python -c "import hypothesis, lxml; print('setup ok: hypothesis', hypothesis.__version__)"
