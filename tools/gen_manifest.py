#!/venv/bin/python
"""Regenerate MANIFEST.json from the table below (keeps it schema-valid)."""
import json
from pathlib import Path

ROOT = Path(__file__).resolve().parent.parent
PY = "/venv/bin/python"

# id -> (technique, level text, level note, design ref)
CHECKS = {
    "C12": (
        "exhaustive enumeration of the live class registry with type-directed constructor arguments + Hypothesis over argument subsets; oracle = property read-back, well-formedness, same-class/C14N-equal re-parse, and class dispatch through every access path",
        "Every registered class is built with each constructor argument alone (two values), with all together and with random subsets; supplied arguments must be exposed by their properties, the serialisation must re-parse into the same class with equal infoset and property values, and one element of every registered tag nested in a document must come back as its registered class through from_tag, children, get_elements, get_element, xpath, parent, root descent, clone and XmlPart load.",
        "Argument read-back limited to attribute-backed / explicitly tabulated properties; falsy arguments documented as ignored are not judged.",
        "DESIGN.md 3/C12",
    ),
    "C13": (
        "Hypothesis over style-editing histories with an independent lxml index of (part, container, tag, family, name) as oracle for placement/uniqueness and fingerprinted styles for lookup identity",
        "On the templates and style-rich samples, generated sequences of insert_style (every family, object or XML string, named/unnamed, automatic/default/common, colliding names), set_table_displayed, add_page_break_style, delete_styles, merge_styles_from and save+reload are judged after every step: no duplicate key beyond the source baseline, documented container, the returned name finds exactly the inserted style (also after reload), generated automatic names are new, merges give the union with the other document winning and leave it unchanged.",
        "Placement rule taken from the insert_style docstring; lookups under a family+name present in two containers are ambiguous and not judged.",
        "DESIGN.md 3/C13",
    ),
    "C14": (
        "Hypothesis over identifier strings rich in XPath/XML-significant characters x every name/id carrier and lookup, with decoy objects carrying near-miss identifiers; oracle = exact XML attribute of the returned object, no exception, also after save+reload",
        "For 18 carriers (tables, styles, bookmarks, reference marks and references, frames, draw pages, variables, user fields, user-defined fields, named ranges, notes, annotations, links, sections, change ids, manifest paths, user-defined metadata) an object is stored under a generated identifier next to decoys; each lookup entry point must return exactly that object and never raise, in memory and after reload.",
        "Identity judged on the stored XML attribute; setters that reject an identifier end the case; one known finding (style named 'false') excluded by a scope predicate.",
        "DESIGN.md 3/C14",
    ),
    "C20": (
        "Hypothesis over document histories (heading sequences, TOC position, outline level, fills interleaved with heading edits) against an independent outline-numbering model read from the lxml tree",
        "For generated heading sequences (levels 1..10 in any order, skipped levels, texts with blanks/TAB/spans) the index body after every fill must list exactly the headings within the outline level, each as '<number> <heading text>' per an independent counter model, keep the title, be idempotent under a second fill, and agree with the odfdo-headers tool output.",
        "Skipped-level numbering follows odfdo's documented convention; headings carry no notes.",
        "DESIGN.md 3/C20",
    ),
    "C10": (
        "Hypothesis over twin histories (object, clone, interleaved operation sequences) with byte-equality of the untouched twin's serialisation and the grid model / expected content for the operated twin as oracles",
        "Tables (with warmed caches and repeated runs), rows, cells, paragraphs, XML parts, containers and whole documents (opened lazily by path, from BytesIO, from a folder, with unsaved edits) are cloned; the clone must equal the original at birth, cloning must not change the original, and no generated operation on one twin may be observable on the other.",
        "Grid model for tables; C14N/bytes for document parts.",
        "DESIGN.md 3/C10",
    ),
    "C15": (
        "Hypothesis over programs (random sequences of read-only entry points) on corpus and generated documents, with byte-equality of part serialisations before/after each call and answer stability as oracle",
        "An explicit table of ~135 read-only entry points (plus every argument-less getter found by signature inspection) of Document, Meta, Body/Element, Table, Row, TOC, List, Frame and the export mixins is exercised in random order on the templates, the bounded-table corpus and generated documents; after each call all XML parts and binary parts must be byte-identical and a second call must return the same answer.",
        "Documents with tables above a size bound are excluded (whole-body exports expand all repetitions); the two getters documented as creating their container are excluded.",
        "DESIGN.md 3/C15",
    ),
    "C11": (
        "exhaustive enumeration of inline-element adjacencies x containers + Hypothesis over corpus documents, with metamorphic oracle (pretty/folder/flat save == plain save up to ignorable white space; memory unchanged; save sequences idempotent) read through lxml",
        "Every ordered adjacency of 12 inline kinds up to length 3 is placed in paragraphs, headings, list items, cells, note bodies and text boxes and saved plain, pretty, as folder and as flat XML, in several save sequences; paragraph projections, element skeleton, attribute multiset and leaf texts must equal those of the plain save, the in-memory parts must be byte-identical before and after each save, and the final plain output must be C14N-identical. The same is done for the templates and the corpus documents with short edit histories.",
        "Trusts lib/odfread.plain_projection (ODF white-space rules); flat XML judged on content inclusion (non-empty paragraphs).",
        "DESIGN.md 3/C11",
    ),
    "C03": (
        "model-based stateful testing of document histories (Hypothesis RuleBasedStateMachine) with an independent package model and zipfile/os.walk + lxml C14N readers; bounded ddmin",
        "Documents from the templates and the whole sample corpus (opened lazily by path, from BytesIO, from an independently written folder) go through generated edit/add/delete/set_part/read histories with saves in every packaging and reopen cycles; each saved package is compared part by part with the package model, the in-memory parts and the reopened document.",
        "Trusts zipfile, lxml C14N and the package model (documented effects only); flat XML judged on well-formedness and content inclusion only.",
        "DESIGN.md 3/C03",
    ),
    "C04": (
        "stateful testing of document histories with a package validity predicate evaluated by zipfile and an independent manifest parser",
        "Generated histories over all document types (add_file with repeated content, del_part, image frames, merge_styles_from, clone, save, reopen); every saved zip must have mimetype first/stored/extra-less and equal to the manifest root type, no duplicate names, and a manifest listing each file exactly once and nothing absent; source inconsistencies are exempt as baseline.",
        "Directory entries of the manifest are not judged; set_part only on parts the manifest knows.",
        "DESIGN.md 3/C04",
    ),
    "C09": (
        "Hypothesis over (paragraph layout, sequence of mixed markup insertions, removals) with independent lxml projections (ODF white-space aware plain text, raw text offsets, linearised text with wrapper marks) as oracle",
        "Paragraphs assembled from generated pieces receive 1-4 generated insertions (span/link by regex or offset, bookmarks, reference marks, notes, annotations in every addressing form) and removals; the readable text must be unchanged, wrappers must hold exactly the regex matches / designated substring at the right place, empty marks must sit at the designated raw offset, compound forms must equal the documented pair of calls, unmatched addresses must leave the XML byte-identical.",
        "Layouts are built through the API (text nodes in normal form); fields that add their own text are out of scope.",
        "DESIGN.md 3/C09",
    ),
    "C16": (
        "Hypothesis differential testing against Python re applied per text node of the lxml tree (+ atheris on pattern|text strings in thorough)",
        "For generated element trees, patterns of a regex family and replacement strings, replace() counts, substitution results per text node, skeleton preservation, the search family on the element's own text, and the ODF reading of formatted replacements are compared with an independent re-based model.",
        "Search family judged on elements without links/notes and without tail; formatted mode judged where the docstring applies it (text owned by Paragraph/Span/Header).",
        "DESIGN.md 3/C16",
    ),
    "C05": (
        "exhaustive enumeration of short strings and split points + Hypothesis over a rich alphabet (+ atheris in thorough), with an independent ODF 6.1.2 white-space interpreter as oracle",
        "Every string over a 7-character alphabet up to a length bound, in all 2-way splits, is turned into Paragraph/Header/Span; reported text, re-parsed text and class, C14N stability and the text an independent white-space-collapsing consumer reads must all equal the input. Random long strings over a rich alphabet go beyond the bound.",
        "Trusts lib/odfread.ws_text as a transcription of ODF 1.2 part 1 section 6.1.2 and lxml parsing.",
        "DESIGN.md 3/C05",
    ),
    "C06": (
        "Hypothesis with boundary-weighted value strategies per type across all carriers; oracle = documented read-back relation + lexical-space regexes + independent lxml decoding",
        "Each generated value is stored through every carrier (cells, rows, tables, variables, user fields, user-defined metadata) and read back directly, after re-parsing the element and after saving and reloading whole documents; type and equality are judged by the documented mapping and the attributes are checked against the ODF lexical spaces.",
        "Numeric mapping int-if-integral-else-Decimal and Date->datetime at midnight are taken from the documentation.",
        "DESIGN.md 3/C06",
    ),
    "C17": (
        "Hypothesis over compositions of whole-table transformations with metamorphic oracles (involution, idempotence, sub-grid/only-empties-vanish, span rectangle map, CSV round trip) read through an independent lxml expansion",
        "Generated run-length-encoded tables (ragged, styled empties, trailing repeated empties, spans) go through up to 6 steps of transpose-twice, rstrip, optimize_width, set_span/del_span and CSV export/import; each step is judged against the independent before/after matrices, plus lint and live-vs-fresh-parse equality.",
        "Emptiness is the documented (lenient) one; CSV compared in CSV-canonical form; area transposition only on square areas; tables with spans are not transposed.",
        "DESIGN.md 3/C17",
    ),
    "C08": (
        "Hypothesis over (table state, getter, coordinates, mutation of the result) with the grid model as oracle for address/content and byte-equality of serialisations as oracle for detachment",
        "Each getter is called on generated run-length-encoded tables (after cache-warming reads and edits) with coordinates inside, at the edge of and outside the populated area; stamped coordinates and content are compared with the grid model, expanding getters must drop repeat counts, and a generated mutation of one returned object must leave the table and all other returned objects byte-identical where the docstring promises copies.",
        "Detachment judged only for getters documented as returning copies; one known finding (Table.traverse aliasing unrepeated rows) is excluded by a scope predicate and printed as KNOWN-FINDING.",
        "DESIGN.md 3/C08",
    ),
    "C19": (
        "exhaustive enumeration of the column-letter bijection + Hypothesis metamorphic testing (same call under tuple/list/string/negative forms must agree) + grid-model oracle for range bounds + NamedRange round trips",
        "Column letters/numbers are enumerated exhaustively up to a bound against an independent bijective base-26; every coordinate-taking getter and mutator is exercised under all coordinate forms on generated tables (results must coincide and equal the clipped rectangle of the grid model); named ranges are written and re-parsed for generated table names and areas; table renames must rewrite exactly the dependent named ranges.",
        "Tuple form is the reference for form equivalence; table names limited to those the name check accepts.",
        "DESIGN.md 3/C19",
    ),
    "C01": (
        "model-based stateful testing (Hypothesis RuleBasedStateMachine) against an uncompressed grid reference model; bounded ddmin of failing histories",
        "Every public Table/Row editing operation, with generated coordinates (in range, edge, beyond, negative, all forms) and repeated arguments, is applied to the real table and to a list-of-lists grid; a read battery is compared after every step. Sampled histories, explicit model oracle.",
        "Trusts lib/gridmodel.py as the transcription of the documented semantics; row styles are not modelled.",
        "DESIGN.md 3/C01",
    ),
    "C02": (
        "stateful testing with three-way differential oracle: live object vs fresh parse of its own XML vs independent lxml expansion (+ save/reload)",
        "Same histories as C01 with cache-warming reads before mutations; after every step the live answers must equal those of a fresh parse and of an independent reader of the serialisation, every 5th step also after Document.save + reload.",
        "Trusts lxml and lib/odfread.expand_table; office-suite string cells without office:string-value compared on type/emptiness only.",
        "DESIGN.md 3/C02",
    ),
    "C07": (
        "stateful testing with a structural validity predicate (lxml lint of the serialisation) + Hypothesis over name strings",
        "After every step of generated histories the table XML is linted (repeat attributes, row children, column order, row width vs columns, size vs repeat sums, first row declares columns); table and named-range names are generated over an alphabet with all forbidden characters and accept/reject is compared with the documented rule.",
        "Trusts lxml; names with control characters and undocumented named-range name classes are not judged.",
        "DESIGN.md 3/C07",
    ),
    "C18": (
        "exhaustive boundary-lattice enumeration + Hypothesis random values + mutation of valid encodings (rejection), atheris in thorough",
        "Generated-input search with explicit oracles: decode(encode(v)) == v, encode output matches the xsd/ODF lexical regex, an independent duration reader agrees, and every mutant outside the lexical form must be rejected. Lattices are enumerated completely; everything else is sampled.",
        "Trusts Python datetime/Decimal/re and the regex transcription of the xsd lexical forms; date rejection limited to strings wrong in any ISO reading.",
        "DESIGN.md 3/C18",
    ),
}

PENDING = {}


def main():
    props = [json.loads(l) for l in (ROOT / "properties.jsonl").read_text().splitlines() if l.strip()]
    checks = []
    na = []
    for p in props:
        pid = p["id"]
        if pid in CHECKS and (ROOT / "props" / f"{pid.lower()}.py").exists():
            tech, text, note, ref = CHECKS[pid]
            checks.append({
                "property_id": pid,
                "quick_cmd": f"{PY} check.py {pid} --tier quick",
                "thorough_cmd": f"{PY} check.py {pid} --tier thorough",
                "evidence_file": f"evidence/{pid}.json",
                "replay_cmd_template": f"{PY} check.py {pid} --replay {{path}}",
                "engine": "pbt",
                "level_claimed": {"category": "exploration", "text": text, "design_ref": ref},
                "level_note": note,
                "technique": tech,
            })
        else:
            na.append({"property_id": pid, "reason": PENDING.get(pid, "check not built yet (work in progress); the technique applies, see DESIGN.md section 3")})
    manifest = {
        "version": 1,
        "setup_cmd": "sh tools/setup.sh",
        "hooks": {
            "guard": "ODFDO_VERIF",
            "enable": "no source hooks are needed: checks import /repo/src directly (PYTHONPATH) and observe public API and serialised XML only; check.py sets ODFDO_VERIF=1 for uniformity",
            "baseline_off_cmd": "cd /repo && /venv/bin/python -m pytest -q -p no:cacheprovider --timeout=900",
            "source_commits": [],
            "add_only": True,
        },
        "engines": [{
            "name": "pbt",
            "path": "check.py",
            "serves_properties": [c["property_id"] for c in checks],
            "kind_free_text": "Hypothesis (given + rule-based state machines) + exhaustive enumeration of small domains + atheris in thorough tiers; independent lxml/zipfile oracles in lib/odfread.py; 16 forked shards",
        }],
        "checks": checks,
        "notes": "VERIF_SEED selects the random part; evidence/<id>.json is rewritten by each run; known_findings.json lists fixed/known defects; exit 2 = harness error (never a VIOLATION).",
        "not_applicable": na,
    }
    (ROOT / "MANIFEST.json").write_text(json.dumps(manifest, indent=1) + "\n")
    try:
        import jsonschema
        jsonschema.validate(manifest, json.loads(Path("/root/.vp/MANIFEST.schema.json").read_text()))
        print("MANIFEST valid;", len(checks), "checks,", len(na), "not applicable")
    except ImportError:
        print("written (jsonschema not importable here)")


if __name__ == "__main__":
    main()
