#!/bin/sh
# Run every registered quick (or $1=thorough) check once; print a one-line summary per property and validate the evidence files.
cd "$(dirname "$0")/.." || exit 1
tier=${1:-quick}
rc=0
for id in C01 C02 C03 C04 C05 C06 C07 C08 C09 C10 C11 C12 C13 C14 C15 C16 C17 C18 C19 C20; do
  /venv/bin/python check.py $id --tier $tier > .scratch-run-$id.log 2>&1
  code=$?
  tail -1 .scratch-run-$id.log | sed "s/^/[exit $code] /"
  grep -h "^VIOLATION" .scratch-run-$id.log
  [ $code -ne 0 ] && rc=1
  rm -f .scratch-run-$id.log
done
python3-vt - <<'PY'
import json, glob, jsonschema
schema = json.load(open('/root/.vp/EVIDENCE.schema.json'))
for f in sorted(glob.glob('evidence/*.json')):
    try:
        jsonschema.validate(json.load(open(f)), schema)
    except Exception as e:
        print("INVALID EVIDENCE", f, str(e)[:200])
print("evidence files validated")
PY
exit $rc
