"""The document corpus: 4 built-in templates + every tests/samples/*.od? file."""
from __future__ import annotations

import os
from functools import lru_cache
from pathlib import Path

from . import odfread


def repo_root() -> Path:
    return Path(os.environ.get("ODFDO_SRC", "/repo/src")).resolve().parent


def samples_dir() -> Path:
    d = repo_root() / "tests" / "samples"
    if not d.is_dir():
        d = Path("/repo/tests/samples")
    return d


@lru_cache(None)
def sample_files():
    return sorted(p for p in samples_dir().iterdir() if p.suffix in (".odt", ".ods", ".odp", ".odg", ".ott", ".ots", ".otp", ".otg"))


TEMPLATES = ["text", "spreadsheet", "presentation", "drawing"]


@lru_cache(None)
def table_specs(max_w=30, max_h=40):
    """(file name, index) of every corpus table small enough for per-step batteries."""
    from odfdo import Document

    out = []
    for p in sample_files():
        if p.stat().st_size > 400_000:
            continue
        try:
            doc = Document(str(p))
            tables = doc.body.get_tables()
        except Exception:
            continue
        for i, t in enumerate(tables):
            root = odfread.parse_fragment(t.serialize())
            if odfread.uses_groups(root):
                continue
            ncols, nrows, widest = odfread.table_dims(root)
            if not nrows or nrows > max_h or ncols > max_w or widest > ncols:
                continue
            ex = odfread.expand_table(root)
            if any(len(r) > ex["ncols"] for r in ex["rows"]):
                continue  # rows wider than declared columns: outside the API's invariant
            if any(c[3] for r in ex["rows"] for c in r):
                continue  # covered cells: exercised by C17
            out.append({"kind": "corpus", "file": p.name, "index": i})
    return out


def load_table(name, index):
    from odfdo import Document, Element

    doc = Document(str(samples_dir() / name))
    t = doc.body.get_tables()[index]
    return Element.from_tag(t.serialize())


def decorate(data: bytes) -> bytes:
    """The same package with XML comments and processing instructions added around and inside the root element of
    content.xml, styles.xml, meta.xml and settings.xml (valid XML, valid ODF: consumers ignore them)."""
    import io
    import re
    import zipfile

    src = zipfile.ZipFile(io.BytesIO(data))
    out = io.BytesIO()
    with zipfile.ZipFile(out, "w") as z:
        for info in src.infolist():
            raw = src.read(info.filename)
            if info.filename in ("content.xml", "styles.xml", "meta.xml", "settings.xml"):
                m = re.match(rb"\s*(<\?xml[^>]*\?>)?\s*", raw)
                head, rest = raw[:m.end()], raw[m.end():]
                # after the root start tag: a comment and a PI as first children
                end_of_start = rest.index(b">") + 1
                if rest[end_of_start - 2:end_of_start] != b"/>":
                    rest = rest[:end_of_start] + b"<!--verif inside--><?verif-pi inside?>" + rest[end_of_start:]
                raw = head + b"<!--verif before root--><?verif-pi before?>" + rest.rstrip() + b"<!--verif after root-->"
            z.writestr(info, raw)
    return out.getvalue()


def recode(data: bytes, encoding: str) -> bytes:
    """The same package with content.xml, styles.xml and meta.xml written in another declared encoding (valid XML; the
    infoset is unchanged).  encoding: 'ISO-8859-1' (characters outside it become character references) or 'UTF-16'."""
    import io
    import zipfile

    from lxml import etree

    src = zipfile.ZipFile(io.BytesIO(data))
    out = io.BytesIO()
    with zipfile.ZipFile(out, "w") as z:
        for info in src.infolist():
            raw = src.read(info.filename)
            if info.filename in ("content.xml", "styles.xml", "meta.xml"):
                tree = etree.fromstring(raw).getroottree()
                raw = etree.tostring(tree, encoding=encoding, xml_declaration=True)
            z.writestr(info, raw)
    return out.getvalue()


def dupdirs(data: bytes) -> bytes:
    """The same package with every directory entry written twice in the zip directory (packages written by some tools
    repeat directory entries)."""
    import io
    import warnings
    import zipfile

    src = zipfile.ZipFile(io.BytesIO(data))
    out = io.BytesIO()
    with warnings.catch_warnings():
        warnings.simplefilter("ignore")  # zipfile warns about the duplicate names: they are the point
        with zipfile.ZipFile(out, "w") as z:
            for info in src.infolist():
                z.writestr(info, src.read(info.filename))
                if info.filename.endswith("/"):
                    z.writestr(info, b"")
    return out.getvalue()


def variant(data: bytes, name: str) -> bytes:
    return {"decor": decorate, "latin1": lambda d: recode(d, "ISO-8859-1"), "utf16": lambda d: recode(d, "UTF-16"), "dupdirs": dupdirs}[name](data)
