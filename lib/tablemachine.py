"""Shared engine T: an odfdo Table driven side by side with gridmodel.Grid.

Concrete operations are plain dicts (JSON), so a history is replayable without
Hypothesis:  run_history(initial_spec, ops, mode, ctx).

mode selects the oracle applied after every step:
  "C01"  live reads == grid model
  "C02"  live reads == fresh parse == independent expansion (+ document reload)
  "C07"  structural lint of the serialised XML
"""

from __future__ import annotations

import io
from datetime import date

from hypothesis import strategies as st
from hypothesis.stateful import RuleBasedStateMachine, initialize, invariant, precondition, rule

from . import odfread
from .gridmodel import EMPTY, Grid, read_value, same_value
from .harness import Abandon, Violation

VALUES = [None, True, False, 0, 1, 2.5, "a", "b", "", date(2024, 1, 31), "a b", 1, "Paris"]
STYLES = [None, None, "ce1", "ce2"]
CSTYLES = [None, "co1", "co2"]

MAXDIM = 10  # logical size cap for generated coordinates


# ----------------------------------------------------------------- helpers
def alpha(x):
    x += 1
    s = ""
    while x:
        s = chr(65 + (x - 1) % 26) + s
        x = (x - 1) // 26
    return s


def render_x(x, form, width):
    if form == "s":
        return alpha(x)
    if form == "n" and 0 <= x < width:
        return x - width
    return x


def render_y(y, form, height):
    if form == "s":
        return str(y + 1)
    if form == "n" and 0 <= y < height:
        return y - height
    return y


def render_xy(x, y, form, width, height):
    if form == "s":
        return f"{alpha(x)}{y + 1}"
    if form == "n":
        return (render_x(x, "n", width), render_y(y, "n", height))
    if form == "l":
        return [x, y]
    return (x, y)


def render_area(x, y, z, t, form, width, height):
    if form == "s":
        return f"{alpha(x)}{y + 1}:{alpha(z)}{t + 1}"
    if form == "n":
        return (render_x(x, "n", width), render_y(y, "n", height), render_x(z, "n", width), render_y(t, "n", height))
    if form == "l":
        return [x, y, z, t]
    return (x, y, z, t)


def mk_cell(c):
    from odfdo import Cell

    v, s, r = VALUES[c["v"]], STYLES[c["s"]], c.get("r", 1)
    return Cell(v, style=s, repeated=r if r > 1 else None)


def cellv(c):
    return (VALUES[c["v"]], STYLES[c["s"]])


def mk_row(r):
    from odfdo import Row

    row = Row()
    for c in r["cells"]:
        row.append_cell(mk_cell(c))
    if r.get("r", 1) > 1:
        row.repeated = r["r"]
    return row


def rowv(r):
    out = []
    for c in r["cells"]:
        out.extend([cellv(c)] * c.get("r", 1))
    return out


# ----------------------------------------------------------------- initial states
def build_initial(spec):
    """-> (Table, Grid)"""
    from odfdo import Cell, Column, Element, Row, Table

    kind = spec["kind"]
    if kind == "empty":
        return Table("T"), Grid()
    if kind == "wh":
        w, h = spec["w"], spec["h"]
        t = Table("T", width=w, height=h)
        w2, h2 = (w or 1, h or 1) if (w is not None or h is not None) else (0, 0)
        return t, Grid([None] * w2, [[EMPTY] * w2 for _ in range(h2)])
    if kind == "rle":
        g = Grid()
        for s, r in spec["cols"]:
            g.cols.extend([CSTYLES[s]] * r)
        for r in spec["rows"]:
            for _ in range(r.get("r", 1)):
                g.rows.append(rowv(r))
        wid = max([len(r) for r in g.rows] + [0])
        extra = max(0, wid - len(g.cols))
        g.cols.extend([None] * extra)
        if spec.get("via") == "api":
            t = Table("T")
            for s, r in spec["cols"]:
                t.append_column(Column(repeated=r if r > 1 else None, style=CSTYLES[s]))
            if extra:
                t.append_column(Column(repeated=extra if extra > 1 else None))
            if not g.cols and spec["rows"]:
                # documented: columns are created with the first row
                g.cols = [None] * max(1, len(g.rows[0]))
                wid = max(len(r) for r in g.rows)
                g.cols.extend([None] * max(0, wid - len(g.cols)))
            for r in spec["rows"]:
                t.append_row(mk_row(r))
            return t, g
        # literal XML: raw element appends (no table API), then a fresh parse
        t = Table("T")
        for s, r in spec["cols"]:
            Element.append(t, Column(repeated=r if r > 1 else None, style=CSTYLES[s]))
        if extra:
            Element.append(t, Column(repeated=extra if extra > 1 else None))
        for r in spec["rows"]:
            row = Row()
            for c in r["cells"]:
                Element.append(row, mk_cell(c))
            if r.get("r", 1) > 1:
                row.set_attribute("table:number-rows-repeated", str(r["r"]))
            Element.append(t, row)
        if spec.get("underdeclared") and len(g.cols) > 1:
            # as some producers write it: fewer column declarations than the widest row has cells (the model keeps the
            # full width so that generated coordinates reach those cells; only the live-vs-fresh oracle of C02 uses this)
            cols_el = [c for c in t.children if c.tag == "table:table-column"]
            for c in cols_el[1:]:
                t.delete(c)
            if cols_el and cols_el[0].get_attribute("table:number-columns-repeated"):
                cols_el[0].del_attribute("table:number-columns-repeated")
        t2 = Element.from_tag(t.serialize())
        return t2, g
    if kind in ("corpus", "office"):
        from . import corpus

        if kind == "office":
            # the shape office suites write: repeated column declaration with a default cell style, a title merged over n
            # columns followed by ONE covered-cell element repeated n-1 times, narrower data rows, a repeated empty tail
            n, dw, dr, cr, tail = spec["span"], spec["data_w"], spec["data_rows"], spec["colrep"], spec["tail"]
            cr = max(cr, n, dw)
            rows_xml = (f'<table:table-row><table:table-cell table:number-columns-spanned="{n}" table:number-rows-spanned="1" '
                        f'office:value-type="string" office:string-value="Title"><text:p>Title</text:p></table:table-cell>'
                        f'<table:covered-table-cell' + (f' table:number-columns-repeated="{n - 1}"' if n > 2 else "") + "/>"
                        + (f'<table:table-cell table:number-columns-repeated="{cr - n}"/>' if spec.get("pad") and cr - n > 1 else "") + "</table:table-row>")
            for i in range(dr):
                cells = "".join(f'<table:table-cell office:value-type="float" office:value="{i * 10 + j}"><text:p>{i * 10 + j}</text:p></table:table-cell>'
                                for j in range(dw))
                rows_xml += f"<table:table-row>{cells}</table:table-row>"
            if tail:
                rows_xml += (f'<table:table-row' + (f' table:number-rows-repeated="{tail}"' if tail > 1 else "") + ">"
                             f'<table:table-cell' + (f' table:number-columns-repeated="{cr}"' if cr > 1 else "") + "/></table:table-row>")
            xml = (f'<table:table table:name="T"><table:table-column' + (f' table:number-columns-repeated="{cr}"' if cr > 1 else "")
                   + f' table:default-cell-style-name="ce1"/>{rows_xml}</table:table>')
            loader = lambda: Element.from_tag(xml)  # noqa: E731
        else:
            loader = lambda: corpus.load_table(spec["file"], spec["index"])  # noqa: E731
        t = loader()
        ex = odfread.expand_table(odfread.parse_fragment(t.serialize()))
        # string cells written by an office suite carry no office:string-value: their
        # value is whatever a pristine copy of the table reads (initial decoding is
        # not what C01 judges; the history semantics are)
        pristine = loader()
        rows = []
        for y, row in enumerate(ex["rows"]):
            out = []
            for x, c in enumerate(row):
                v = c[0]
                if isinstance(v, odfread.Opaque):
                    v = pristine.get_value((x, y))
                out.append((v, c[2]))
            rows.append(out)
        g = Grid(ex["col_styles"], rows)
        return t, g
    raise ValueError(kind)


# strategies for initial specs --------------------------------------------------
def st_cell(maxrep=4):
    return st.fixed_dictionaries({
        "v": st.integers(0, len(VALUES) - 1),
        "s": st.integers(0, len(STYLES) - 1),
        "r": st.one_of(st.just(1), st.just(1), st.integers(2, maxrep), st.just(1)),
    })


def st_row(maxcells=5, maxrep=4):
    return st.fixed_dictionaries({
        "cells": st.lists(st_cell(), min_size=0, max_size=maxcells),
        "r": st.one_of(st.just(1), st.just(1), st.integers(2, maxrep)),
    })


def st_initial(corpus_specs=(), underdeclared=False):
    rle = st.fixed_dictionaries({
        "kind": st.just("rle"),
        "via": st.sampled_from(["xml", "api"]),
        "cols": st.lists(st.tuples(st.integers(0, len(CSTYLES) - 1), st.integers(1, 4)), max_size=3),
        "rows": st.lists(st_row(), min_size=0, max_size=5),
    })
    opts = [
        st.just({"kind": "empty"}),
        st.fixed_dictionaries({"kind": st.just("wh"), "w": st.integers(1, 6), "h": st.integers(1, 6)}),
        # one dimension left out (or 0): the documented default is 1
        st.one_of(st.fixed_dictionaries({"kind": st.just("wh"), "w": st.sampled_from([None, 0]), "h": st.integers(1, 6)}),
                  st.fixed_dictionaries({"kind": st.just("wh"), "w": st.integers(1, 6), "h": st.sampled_from([None, 0])})),
        rle, rle, rle,
    ]
    opts.append(st.fixed_dictionaries({"kind": st.just("office"), "span": st.integers(2, 6), "data_w": st.integers(1, 4), "data_rows": st.integers(0, 3),
                                       "colrep": st.integers(1, 8), "tail": st.integers(0, 4), "pad": st.booleans()}))
    if underdeclared:
        opts.append(st.fixed_dictionaries({
            "kind": st.just("rle"), "via": st.just("xml"), "underdeclared": st.just(True),
            "cols": st.lists(st.tuples(st.integers(0, len(CSTYLES) - 1), st.integers(1, 2)), min_size=1, max_size=2),
            "rows": st.lists(st_row(), min_size=1, max_size=5)}))
    if corpus_specs:
        opts.append(st.sampled_from(list(corpus_specs)))
    return st.one_of(*opts)


# ----------------------------------------------------------------- operations
COORD_CLS = st.sampled_from(["in", "in", "in", "edge", "beyond", "in"])
FORM = st.sampled_from(["t", "t", "s", "n", "l"])
FORM1 = st.sampled_from(["t", "t", "s", "n"])


def resolve(cls, k, size):
    if cls == "in" and size > 0:
        return k % size
    if cls == "beyond":
        return size + 1 + k % 3
    return size  # edge (or "in" on an empty dimension)


class Runner:
    """Executes concrete ops on the real table and on the model."""

    def __init__(self, spec, ctx, mode):
        self.ctx = ctx
        self.mode = mode
        self.spec = spec
        self.ops = []
        self.dead = False
        self.nt = False
        self.labels = set()
        self.warm_before_mut = False
        self.read_after = False
        self.step = 0
        with ctx.guard((mode, "initial", "exception"), self.case):
            self.t, self.m = build_initial(spec)

    def case(self):
        return {"initial": self.spec, "ops": list(self.ops), "mode": self.mode}

    # -- dispatch --------------------------------------------------------------
    def apply(self, op):
        if self.dead:
            return
        self.ops.append(op)
        self.step += 1
        self.ctx.ev()
        try:
            self._classify(op)
            h_before = self.m.height
            with self.ctx.guard((self.mode, op["op"], "exception"), self.case):
                getattr(self, "op_" + op["op"])(op)
            if self.spec.get("underdeclared") and not self.dead:
                # keep the coordinates meaningful: the grid of such a table is re-read from the independent expansion
                try:
                    self._resync_model()
                except Exception:
                    pass
            self.first_row_added = h_before == 0 and self.m.height > 0 and op["op"] in ROW_ADDERS
            self.check()
        except Abandon:
            self.dead = True

    def _run_in_row(self, y):
        """was row y stored inside a repeated run (per the independent reader)?"""
        return False

    def _classify(self, op):
        name = op["op"]
        ctx = self.ctx
        ctx.count("op:" + name)
        if name.startswith("read_") or name == "warm":
            return
        # run-length facts at call time, from the serialised XML (independent of caches)
        try:
            root = odfread.parse_fragment(self.t.serialize())
        except Exception:
            return
        rows = list(odfread._iter_rows(root))
        y = op.get("y")
        x = op.get("x")
        hits = set()
        if y is not None:
            pos = 0
            for r in rows:
                rep = odfread._rep(r, odfread.A_ROWREP)
                if pos <= y < pos + rep:
                    if rep > 1:
                        hits.add("row-in-run:" + ("first" if y == pos else "last" if y == pos + rep - 1 else "mid"))
                    if x is not None:
                        cpos = 0
                        for c in r:
                            crep = odfread._rep(c, odfread.A_COLREP)
                            if cpos <= x < cpos + crep and crep > 1:
                                hits.add("cell-in-run")
                            cpos += crep
                    break
                pos += rep
        elif x is not None and name in ("insert_column", "delete_column", "set_column", "set_column_values", "set_column_cells"):
            if len({len(r) for r in self.m.rows}) > 1:
                hits.add("column-op-on-ragged")
            for r in rows:
                cpos = 0
                for c in r:
                    crep = odfread._rep(c, odfread.A_COLREP)
                    if cpos < x < cpos + crep:
                        hits.add("column-op-splits-cell-run")
                    cpos += crep
                if odfread._rep(r, odfread.A_ROWREP) > 1:
                    hits.add("column-op-over-repeated-row")
        rep_arg = max([op.get("r", 1)] + [c.get("r", 1) for c in op.get("cells", [])] +
                      [op.get("cell", {}).get("r", 1), op.get("row", {}).get("r", 1)] +
                      [r.get("r", 1) for r in op.get("rows", [])])
        if rep_arg > 1:
            hits.add("repeated-argument")
        if hits:
            self.nt = True
            self.labels |= hits
            for h in hits:
                ctx.count("nt:" + h)

    # -- mutations ----------------------------------------------------------------
    def _xy(self, op):
        return render_xy(op["x"], op["y"], op.get("form", "t"), self.m.width, self.m.height)

    def op_set_value(self, op):
        self.t.set_value(self._xy(op), VALUES[op["v"]], style=STYLES[op["s"]])
        self.m.set_cell(op["x"], op["y"], (VALUES[op["v"]], STYLES[op["s"]]))

    def op_set_cell(self, op):
        c = op["cell"]
        self.t.set_cell(self._xy(op), mk_cell(c), clone=op.get("clone", True))
        self.m.set_cell(op["x"], op["y"], cellv(c), c.get("r", 1))

    def op_insert_cell(self, op):
        c = op["cell"]
        self.t.insert_cell(self._xy(op), mk_cell(c))
        self.m.insert_cell(op["x"], op["y"], cellv(c), c.get("r", 1))

    def op_append_cell(self, op):
        c = op["cell"]
        self.t.append_cell(render_y(op["y"], op.get("form", "t"), self.m.height), mk_cell(c))
        self.m.append_cell(op["y"], cellv(c), c.get("r", 1))

    def op_delete_cell(self, op):
        self.t.delete_cell(self._xy(op))
        self.m.delete_cell(op["x"], op["y"])

    # The caller may keep the Row object it passed in ("hold") and may ask the table not to copy it ("noclone": the object
    # itself becomes the stored row).  A kept object is used again later by op_reuse_row.
    held = None

    def _row_arg(self, op):
        row = mk_row(op["row"])
        if op.get("hold"):
            if self.held is None:
                self.held = []
            self.held.append((row, bool(op.get("noclone"))))
            self.labels.add("row-object-kept" + ("-noclone" if op.get("noclone") else ""))
        return row

    def op_set_row(self, op):
        r = op["row"]
        row = self._row_arg(op)
        if op.get("noclone"):
            self.t.set_row(render_y(op["y"], op.get("form", "t"), self.m.height), row, clone=False)
        else:
            self.t.set_row(render_y(op["y"], op.get("form", "t"), self.m.height), row)
        self.m.set_row(op["y"], rowv(r), r.get("r", 1))

    def op_insert_row(self, op):
        r = op["row"]
        row = self._row_arg(op)
        if op.get("noclone"):
            self.t.insert_row(render_y(op["y"], op.get("form", "t"), self.m.height), row, clone=False)
        else:
            self.t.insert_row(render_y(op["y"], op.get("form", "t"), self.m.height), row)
        self.m.insert_row(op["y"], rowv(r), r.get("r", 1))

    def op_append_row(self, op):
        r = op["row"]
        row = self._row_arg(op)
        if op.get("noclone"):
            self.t.append_row(row, clone=False)
        else:
            self.t.append_row(row)
        self.m.append_row(rowv(r), r.get("r", 1))

    def op_reuse_row(self, op):
        """A Row object kept from an earlier call is handed to the table again (default copying).  What the table must
        receive is what that object says at this moment: its XML, expanded by the independent reader."""
        if not self.held:
            return
        row, live = self.held[op.get("h", 0) % len(self.held)]
        rel = odfread.parse_fragment(row.serialize())
        cells, rep = odfread.expand_row(rel)
        vals = []
        for x, (v, _vt, s_, _c) in enumerate(cells):
            vals.append((v if not isinstance(v, odfread.Opaque) else row.get_value(x), s_))
        via = op.get("via", "append_row")
        if live:
            # the object was given to the table without copy: the table may have edited the stored row through other
            # wrappers since.  The library promises nothing for a wrapper whose own width is out of date, nor for a row
            # passed as replacement of (a part of) itself: such reuses are left out, the others are appended.
            if row.width != len(vals) or (row.repeated or 1) != rep:
                self.ctx.count("reuse-skipped:kept-object-out-of-date")
                return
            via = "append_row"
        self.labels.add("row-object-reused")
        if via == "append_row":
            self.t.append_row(row)
            self.m.append_row(vals, rep)
        elif via == "set_row":
            self.t.set_row(op["y"], row)
            self.m.set_row(op["y"], vals, rep)
        else:
            self.t.insert_row(op["y"], row)
            self.m.insert_row(op["y"], vals, rep)

    def op_extend_rows(self, op):
        self.t.extend_rows([mk_row(r) for r in op["rows"]])
        self.m.extend_rows([(rowv(r), r.get("r", 1)) for r in op["rows"]])

    def op_delete_row(self, op):
        self.t.delete_row(render_y(op["y"], op.get("form", "t"), self.m.height))
        self.m.delete_row(op["y"])

    def op_set_row_values(self, op):
        self.t.set_row_values(render_y(op["y"], op.get("form", "t"), self.m.height),
                              [VALUES[v] for v in op["vals"]], style=STYLES[op["s"]])
        self.m.set_row(op["y"], [(VALUES[v], STYLES[op["s"]]) for v in op["vals"]])

    def op_set_row_cells(self, op):
        self.t.set_row_cells(render_y(op["y"], op.get("form", "t"), self.m.height), [mk_cell(c) for c in op["cells"]])
        self.m.set_row(op["y"], rowv({"cells": op["cells"]}))

    def op_set_values(self, op):
        mat = [[VALUES[v] for v in row] for row in op["matrix"]]
        self.t.set_values(mat, coord=self._xy(op), style=STYLES[op["s"]])
        self.m.set_values(mat, op["x"], op["y"], STYLES[op["s"]])

    def op_set_cells(self, op):
        self.t.set_cells([[mk_cell(c) for c in row] for row in op["matrix"]], coord=self._xy(op))
        self.m.set_cells([[(cellv(c), c.get("r", 1)) for c in row] for row in op["matrix"]], op["x"], op["y"])

    def op_set_column_values(self, op):
        vals = [VALUES[v] for v in op["vals"]]
        x = render_x(op["x"], op.get("form", "t"), self.m.width)
        if len(vals) != self.m.height:
            before = self.t.serialize()
            try:
                self.t.set_column_values(x, vals)
            except ValueError:
                self.ctx.check(self.t.serialize() == before, (self.mode, "set_column_values", "partial-on-error"),
                               "table changed although ValueError was raised", self.case)
                return
            self.ctx.fail((self.mode, "set_column_values", "no-error-on-length-mismatch"),
                          f"{len(vals)} values accepted for height {self.m.height}", self.case)
            return
        self.t.set_column_values(x, vals, style=STYLES[op["s"]])
        self.m.set_column_cells(op["x"], [((v, STYLES[op["s"]]), 1) for v in vals])

    def op_set_column_cells(self, op):
        cells = op["cells"]
        x = render_x(op["x"], op.get("form", "t"), self.m.width)
        self.t.set_column_cells(x, [mk_cell(c) for c in cells])
        self.m.set_column_cells(op["x"], [(cellv(c), c.get("r", 1)) for c in cells])

    def _col(self, op):
        from odfdo import Column

        return Column(repeated=op["r"] if op.get("r", 1) > 1 else None, style=CSTYLES[op.get("cs", 0)])

    def op_set_column(self, op):
        self.t.set_column(render_x(op["x"], op.get("form", "t"), self.m.width), self._col(op))
        self.m.set_column(op["x"], CSTYLES[op.get("cs", 0)], op.get("r", 1))

    def op_insert_column(self, op):
        self.t.insert_column(render_x(op["x"], op.get("form", "t"), self.m.width), self._col(op))
        self.m.insert_column(op["x"], CSTYLES[op.get("cs", 0)], op.get("r", 1))

    def op_append_column(self, op):
        self.t.append_column(self._col(op))
        self.m.append_column(CSTYLES[op.get("cs", 0)], op.get("r", 1))

    def op_delete_column(self, op):
        self.t.delete_column(render_x(op["x"], op.get("form", "t"), self.m.width))
        self.m.delete_column(op["x"])

    def op_clear(self, op):
        self.t.clear()
        self.m.clear()

    def op_strip(self, op):
        """rstrip / optimize_width: whole-table operations whose content semantics are judged by C17; here they take part in
        the histories of the structural (C07) and cache-consistency (C02) oracles, and the grid model is re-read from the
        independent expansion afterwards so that later coordinates stay meaningful."""
        if op["k"] == "rstrip":
            self.t.rstrip(aggressive=bool(op.get("aggr")))
        else:
            self.t.optimize_width()
        ex = odfread.expand_table(odfread.parse_fragment(self.t.serialize()))
        rows = []
        for y, row in enumerate(ex["rows"]):
            # office-suite string cells (no office:string-value) keep whatever the table reads for them
            rows.append([(v if not isinstance(v, odfread.Opaque) else self.t.get_value((x, y)), s_)
                         for x, (v, _vt, s_, _c) in enumerate(row)])
        self.m = Grid(ex["col_styles"], rows)
        self.labels.add("strip-op")

    def _resync_model(self):
        ex = odfread.expand_table(odfread.parse_fragment(self.t.serialize()))
        rows = []
        for y, row in enumerate(ex["rows"]):
            rows.append([(v if not isinstance(v, odfread.Opaque) else self.t.get_value((x, y)), s_)
                         for x, (v, _vt, s_, _c) in enumerate(row)])
        self.m = Grid(ex["col_styles"], rows)

    def op_transpose(self, op):
        """whole-table transpose (its content semantics are judged by C17); here it only brings the table, and its caches,
        into the state a later read or edit starts from.  The grid is re-read from the independent expansion."""
        self.t.transpose()
        self._resync_model()
        self.labels.add("transposed")

    def op_live_row(self, op):
        """Row-level reads and in-place narrowing edits on the stored row itself (get_row(clone=False)): the table's own
        answers must follow.  Only edits that cannot outgrow the declared columns are used (a row edited behind the table's
        back cannot ask it for more columns)."""
        if self.m.height == 0:
            return
        y = op["y"] % self.m.height
        row = self.t.get_row(y, clone=False)
        for e in op["edits"]:
            k = e["k"]
            w = row.width
            if k == "read" and w:
                row.get_cell(e["kx"] % w)
                row.get_value(e["kx"] % w)
            elif k == "read_table" and w:
                self.t.get_cell((e["kx"] % w, y))
                self.t.get_value((e["kx"] % w, y))
            elif k == "read_at_end":
                # a read just past the last cell of the row (answers an empty cell; must leave nothing behind)
                self.t.get_value((w, y))
                self.t.get_cell((w, y))
                row.get_value(w)
            elif k == "read_first_trailing" and w:
                # the first of the empty cells that a following rstrip removes
                mrow = self.m.get_row(y)
                x = len(mrow)
                while x > 0 and mrow[x - 1][0] is None and (e.get("aggr") or mrow[x - 1][1] is None):
                    x -= 1
                if x < w:
                    (row if e.get("via_row") else self.t).get_cell(x if e.get("via_row") else (x, y))
                    self.t.get_value((x, y))
            elif k == "strip_probe":
                # read exactly the first of the trailing empty cells through the table and through the row, then strip them
                mrow = self.m.get_row(y)
                x = len(mrow)
                while x > 0 and mrow[x - 1][0] is None and (e.get("aggr") or mrow[x - 1][1] is None):
                    x -= 1
                if x < w:
                    self.t.get_cell((x, y))
                    row.get_cell(x)
                    self.t.get_value((x, y))
                    self.labels.add("strip-probe-on-trailing-empties")
                row.rstrip(aggressive=bool(e.get("aggr")))
            elif k == "delete_probe" and w:
                # every cell of the stored row read (through the row and through the table), then one cell deleted
                for x_ in range(w):
                    row.get_cell(x_)
                    self.t.get_value((x_, y))
                row.delete_cell(e["kx"] % w)
            elif k == "rstrip":
                row.rstrip(aggressive=bool(e.get("aggr")))
            elif k == "set_value" and w:
                row.set_value(e["kx"] % w, VALUES[e["v"]])
            elif k == "delete_cell" and w:
                row.delete_cell(e["kx"] % w)
        self.labels.add("live-row-edit")
        self._resync_model()
        if op.get("then_write") is not None:
            # a table-level write exactly at the (new) end of that row, then a read by coordinates
            x = len(self.m.get_row(y))
            if x <= MAXDIM + 2:
                self.op_set_value({"x": x, "y": y, "v": op["then_write"], "s": 0, "form": "t"})
                got = self.t.get_value((x, y))
                self.ctx.check(same_value(got, read_value(VALUES[op["then_write"]])), (self.mode, "live_row", "write-at-row-end-not-read-back"),
                               f"after Row-level edits on the stored row {y}, set_value(({x},{y}), {VALUES[op['then_write']]!r}) "
                               f"then get_value reads {got!r}", self.case)

    def op_row_edit(self, op):
        """get_row -> Row-level edits on the detached copy -> push back."""
        y = op["y"]
        row = self.t.get_row(y)
        mrow = self.m.get_row(y)
        rep = row.repeated or 1
        if op.get("unrepeat", True) or y >= self.m.height:
            row.repeated = None
            rep = 1
        for e in op["edits"]:
            k = e["k"]
            w = len(mrow)
            x = resolve(e["cls"], e["kx"], w)
            rx = render_x(x, e.get("form", "t"), w)
            if k == "set_value":
                row.set_value(rx, VALUES[e["v"]], style=STYLES[e["s"]])
                Grid.row_set(mrow, x, (VALUES[e["v"]], STYLES[e["s"]]))
            elif k == "set_cell":
                row.set_cell(rx, mk_cell(e["cell"]))
                Grid.row_set(mrow, x, cellv(e["cell"]), e["cell"].get("r", 1))
            elif k == "insert_cell":
                row.insert_cell(rx, mk_cell(e["cell"]))
                Grid.row_insert(mrow, x, cellv(e["cell"]), e["cell"].get("r", 1))
            elif k == "append_cell":
                row.append_cell(mk_cell(e["cell"]))
                mrow.extend([cellv(e["cell"])] * e["cell"].get("r", 1))
            elif k == "delete_cell":
                row.delete_cell(rx)
                Grid.row_delete(mrow, x)
            elif k == "set_values":
                row.set_values([VALUES[v] for v in e["vals"]], start=rx, style=STYLES[e["s"]])
                Grid.row_set_cells(mrow, [((VALUES[v], STYLES[e["s"]]), 1) for v in e["vals"]], x)
            elif k == "set_cells":
                row.set_cells([mk_cell(c) for c in e["cells"]], start=rx)
                Grid.row_set_cells(mrow, [(cellv(c), c.get("r", 1)) for c in e["cells"]], x)
            got = row.get_values()
            want = [read_value(c[0]) for c in mrow]
            if self.spec.get("underdeclared"):
                continue  # no reliable grid for a table whose rows outgrow its column declarations: C02 judges live vs fresh only
            self.ctx.check(len(got) == len(want) and all(same_value(a, b) for a, b in zip(got, want)) and row.width == len(mrow),
                           (self.mode, "Row." + k, "detached-row-values"),
                           f"after Row.{k} at x={x}: row reads {got!r} (width {row.width}), grid row {want!r}", self.case)
        # the repeat count the detached row carries when it is pushed back
        # (Row.clear() inside set_values/set_cells drops it) is part of the argument
        rep = row.repeated or 1
        if rep > 1:
            self.labels.add("row_edit-keeps-repeat")
        ty = resolve(op["tcls"], op["tk"], self.m.height)
        if op["push"] == "set_row":
            self.t.set_row(ty, row)
            self.m.set_row(ty, mrow, rep)
        else:
            self.t.insert_row(ty, row)
            self.m.insert_row(ty, mrow, rep)

    # -- cache warming reads (no model change) ------------------------------------
    def op_warm(self, op):
        t = self.t
        h, w = self.m.height, self.m.width
        k = op["k"]
        y = resolve("in", op.get("ky", 0), h)
        x = resolve("in", op.get("kx", 0), w)
        if k == "get_row":
            t.get_row(y)
        elif k == "get_row_noclone":
            if y < h:
                t.get_row(y, clone=False).get_values()
        elif k == "get_cell":
            t.get_cell((x, y))
        elif k == "get_value":
            t.get_value((x, y))
        elif k == "traverse":
            for i, r in enumerate(t.traverse()):
                r.get_values()
                if i >= y:
                    break
        elif k == "get_column":
            t.get_column(x)
        elif k == "rows":
            [r.cells for r in t.rows]
        elif k == "cells":
            t.cells  # noqa: B018
        elif k == "get_column_cells":
            t.get_column_cells(x)
        elif k == "columns":
            t.columns  # noqa: B018
        elif k == "get_values":
            t.get_values()
        elif k == "get_row_values":
            if h:
                t.get_row_values(y)
        self.warmed = True

    def op_read_area(self, op):
        """get_values / get_cells on an area, every coordinate form."""
        x, y, z, t_ = op["x"], op["y"], op["z"], op["t"]
        coord = render_area(x, y, z, t_, op.get("form", "t"), self.m.width, self.m.height)
        want = self.m.area_values(x, y, z, t_)
        got = self.t.get_values(coord)
        self._cmp_matrix(got, want, "get_values(area)", f"area {coord!r}")
        got2 = [list(r) for r in self.t.iter_values(coord)]
        self._cmp_matrix(got2, want, "iter_values(area)", f"area {coord!r}")
        cells = self.t.get_cells(coord)
        gotc = [[c.get_value() for c in row] for row in cells]
        wantc = [[read_value(c[0]) for c in self.m.rows[yy][x:z + 1]] for yy in range(y, min(t_ + 1, self.m.height))]
        self._cmp_matrix(gotc, wantc, "get_cells(area)", f"area {coord!r}")

    # -- oracles ----------------------------------------------------------------------
    def _cmp_matrix(self, got, want, what, extra=""):
        ok = len(got) == len(want) and all(
            len(a) == len(b) and all(same_value(p, q_) for p, q_ in zip(a, b)) for a, b in zip(got, want))
        self.ctx.check(ok, (self.mode, what, "differs-from-grid"),
                       f"{what} {extra}: table answers {got!r}, grid says {want!r}", self.case)

    battery = None  # which oracle runs after each step; defaults to the mode (signatures keep the mode as prefix)

    def check(self):
        which = self.battery or self.mode
        if which == "C01":
            self.check_model()
        elif which == "C02":
            self.check_fresh()
        elif which == "C07":
            self.check_lint()

    def check_model(self):
        """Sizes and the full value matrix after every step; the heavier read
        paths rotate with the step number (all of them when replaying and at
        the end of a history)."""
        t, m, ctx = self.t, self.m, self.ctx
        sig = lambda what: (self.mode, what, "differs-from-grid")  # noqa: E731
        every = self.ctx.replaying or self.final
        k = self.step % 5
        with ctx.guard((self.mode, "read", "exception"), self.case):
            ctx.check(t.size == (m.width, m.height) and t.width == m.width and t.height == m.height, sig("size"),
                      f"size {t.size}, grid {(m.width, m.height)}", self.case)
            want = m.values()
            self._cmp_matrix(t.get_values(), want, "get_values")
            H, W = min(m.height, 12), min(m.width, 12)
            if every or k == 0:
                self._cmp_matrix([list(r) for r in t.iter_values()], want, "iter_values")
                for y in range(H):
                    row = t.get_row(y)
                    mrow = m.rows[y]
                    got = row.get_values()
                    wantr = [read_value(c[0]) for c in mrow]
                    ctx.check(row.width == len(mrow) and len(got) == len(wantr) and all(same_value(a, b) for a, b in zip(got, wantr)),
                              sig("get_row"), f"get_row({y}) = {got!r} width {row.width}; grid row {wantr!r}", self.case)
                    ctx.check(row.y == y, (self.mode, "get_row", "y-stamp"), f"get_row({y}).y == {row.y}", self.case)
                    gots = [c.style for c in row.traverse()]
                    ctx.check(gots == [c[1] for c in mrow], sig("cell-style"),
                              f"row {y} cell styles {gots!r}, grid {[c[1] for c in mrow]!r}", self.case)
            if every or k == 1:
                for y in range(H):
                    self._cmp_matrix([t.get_row_values(y)], [want[y]], "get_row_values")
                for y in range(H + 1):
                    for x in range(W + 1):
                        v = t.get_value((x, y))
                        wv = read_value(m.cell(x, y)[0])
                        ctx.check(same_value(v, wv), sig("get_value"), f"get_value(({x},{y})) = {v!r}, grid {wv!r}", self.case)
            if every or k == 2:
                for y in range(H + 1):
                    for x in range(W + 1):
                        c = t.get_cell((x, y))
                        wv = m.cell(x, y)
                        ctx.check(same_value(c.get_value(), read_value(wv[0])) and c.style == wv[1], sig("get_cell"),
                                  f"get_cell(({x},{y})) = ({c.get_value()!r},{c.style!r}), grid {wv!r}", self.case)
                        ctx.check((c.x, c.y) == (x, y), (self.mode, "get_cell", "xy-stamp"),
                                  f"get_cell(({x},{y})) stamped {(c.x, c.y)}", self.case)
            if every or k == 3:
                for x in range(W):
                    got = t.get_column_values(x)
                    wantc = [read_value(m.cell(x, y)[0]) for y in range(m.height)]
                    self._cmp_matrix([got], [wantc], "get_column_values")
                    cs = t.get_column(x).style
                    ctx.check(cs == m.cols[x], sig("column-style"), f"get_column({x}).style = {cs!r}, grid {m.cols[x]!r}", self.case)
                    cc = t.get_column_cells(x)
                    self._cmp_matrix([[c.get_value() if c is not None else None for c in cc]], [wantc], "get_column_cells")
                    # the same column counted from the end, and by letter
                    if W:
                        gotn = t.get_column_values(x - m.width)
                        self._cmp_matrix([gotn], [wantc], "get_column_values(negative)")
                        ccn = t.get_column_cells(alpha(x))
                        self._cmp_matrix([[c.get_value() if c is not None else None for c in ccn]], [wantc], "get_column_cells(letter)")
                        ctx.check(t.is_column_empty(x - m.width) == t.is_column_empty(x), sig("is_column_empty(negative)"),
                                  f"is_column_empty({x - m.width}) != is_column_empty({x})", self.case)
                cols = [c.style for c in t.traverse_columns()]
                ctx.check(cols == m.cols, sig("traverse_columns"), f"column styles {cols!r}, grid {m.cols!r}", self.case)
            if every or k == 4:
                rows = list(t.traverse())
                self._cmp_matrix([r.get_values() for r in rows], [[read_value(c[0]) for c in r] for r in m.rows], "traverse")
                ctx.check([r.y for r in rows] == list(range(m.height)), (self.mode, "traverse", "y-stamp"),
                          f"traverse y stamps {[r.y for r in rows]}", self.case)
                ctx.check([r.width for r in rows] == [len(r) for r in m.rows], sig("Row.width"),
                          f"row widths {[r.width for r in rows]}, grid {[len(r) for r in m.rows]}", self.case)

    final = False

    def finish(self):
        """Full battery at the end of a history."""
        if self.dead:
            return
        self.final = True
        try:
            self.check()
        except Abandon:
            self.dead = True
        finally:
            self.final = False

    # snapshot through the public API (used for live vs fresh)
    @staticmethod
    def snapshot(t):
        snap = {"size": t.size, "values": t.get_values(get_type=True)}
        rows = []
        for y in range(t.height):
            r = t.get_row(y)
            rows.append((r.width, [(c.get_value(get_type=True), c.style) for c in r.traverse()]))
        snap["rows"] = rows
        snap["cols"] = [c.style for c in t.traverse_columns()]
        snap["colvals"] = [t.get_column_values(x) for x in range(min(t.width, 16))]
        if t.height and t.width:
            snap["corner"] = t.get_value((t.width - 1, t.height - 1))
        return snap

    def check_fresh(self):
        from odfdo import Element

        t, ctx = self.t, self.ctx
        with ctx.guard((self.mode, "read", "exception"), self.case):
            live = self.snapshot(t)
            xml = t.serialize()
        with ctx.guard((self.mode, "reparse", "exception"), self.case):
            fresh_t = Element.from_tag(xml)
            fresh = self.snapshot(fresh_t)
        for key in live:
            ctx.check(_eq(live[key], fresh.get(key)), (self.mode, "live-vs-fresh", key),
                      f"{key}: live object answers {live[key]!r}; a fresh parse of its own XML answers {fresh.get(key)!r}", self.case)
        ex = odfread.expand_table(odfread.parse_fragment(xml))
        ctx.check(live["size"] == (ex["ncols"], len(ex["rows"])), (self.mode, "live-vs-independent", "size"),
                  f"live size {live['size']}, independent reader {(ex['ncols'], len(ex['rows']))}", self.case)
        ctx.check(live["cols"] == ex["col_styles"], (self.mode, "live-vs-independent", "cols"),
                  f"live column styles {live['cols']!r}, independent {ex['col_styles']!r}", self.case)
        ok = len(live["rows"]) == len(ex["rows"])
        msg = ""
        if ok:
            for y, ((w, cells), erow) in enumerate(zip(live["rows"], ex["rows"])):
                if w != len(erow) or len(cells) != len(erow):
                    ok, msg = False, f"row {y}: live width {w}, XML has {len(erow)} cells"
                    break
                for x, (((v, vt), s), (ev, evt, es, _cov)) in enumerate(zip(cells, erow)):
                    if isinstance(ev, odfread.Opaque):
                        same = vt == evt and (not ev.empty or v in ("", None))
                    else:
                        same = same_value(v, ev) and vt == evt
                    if not same or s != es:
                        ok, msg = False, f"cell ({x},{y}): live ({v!r},{vt!r},{s!r}), XML says ({ev!r},{evt!r},{es!r})"
                        break
                if not ok:
                    break
        else:
            msg = f"live has {len(live['rows'])} rows, XML expands to {len(ex['rows'])}"
        ctx.check(ok, (self.mode, "live-vs-independent", "cells"), msg, self.case)
        # padded matrix against the independent expansion
        for y, vals in enumerate(live["values"]):
            erow = ex["rows"][y] if y < len(ex["rows"]) else []
            for x, (v, vt) in enumerate(vals):
                ev, evt = (erow[x][0], erow[x][1]) if x < len(erow) else (None, None)
                if isinstance(ev, odfread.Opaque):
                    continue
                ctx.check(same_value(v, ev) and vt == evt, (self.mode, "live-vs-independent", "get_values"),
                          f"get_values()[{y}][{x}] = ({v!r},{vt!r}), XML says ({ev!r},{evt!r})", self.case)
        if self.step % 5 == 0 or self.ctx.replaying:
            self.check_reload(live)

    def check_reload(self, live):
        from odfdo import Document

        with self.ctx.guard((self.mode, "save-reload", "exception"), self.case):
            doc = Document("spreadsheet")
            doc.body.clear()
            doc.body.append(self.t.clone)
            buf = io.BytesIO()
            doc.save(buf)
            buf.seek(0)
            t2 = Document(buf).body.get_table(0)
            again = self.snapshot(t2)
        for key in live:
            self.ctx.check(_eq(live[key], again.get(key)), (self.mode, "live-vs-reloaded", key),
                           f"{key}: live {live[key]!r}; after save+reload {again.get(key)!r}", self.case)
        self.ctx.count("reload-checks")

    def check_lint(self):
        ctx = self.ctx
        with ctx.guard((self.mode, "serialize", "exception"), self.case):
            xml = self.t.serialize()
            size = self.t.size
        problems, ex = odfread.lint_table(odfread.parse_fragment(xml))
        for code, msg in problems:
            ctx.fail((self.mode, "lint", code), msg, self.case)
        ctx.check(size == (ex["ncols"], len(ex["rows"])), (self.mode, "lint", "size-vs-repeat-sums"),
                  f"reported size {size}; repeats sum to {(ex['ncols'], len(ex['rows']))}", self.case)
        if ex["rows"] and self.first_row_added:
            # "adding the first row to a table declares its columns"
            ctx.check(ex["ncols"] >= 1, (self.mode, "lint", "no-column-after-first-row"),
                      "the step added the first row(s) of the table but no column is declared", self.case)
        n_items = xml.count("<table:table-row") + xml.count("<table:table-cell") + xml.count("<table:table-column")
        if getattr(self, "_items", None) is not None and n_items != self._items:
            self.nt = True
            self.labels.add("run-split-or-merge")
        self._items = n_items

    api_row_added = False
    first_row_added = False
    warmed = False
    mutated_since_warm = None


def _eq(a, b):
    if isinstance(a, (list, tuple)) and isinstance(b, (list, tuple)):
        return len(a) == len(b) and all(_eq(x, y) for x, y in zip(a, b))
    if isinstance(a, (list, tuple)) or isinstance(b, (list, tuple)):
        return False
    return same_value(a, b)


ROW_ADDERS = {"set_value", "set_cell", "insert_cell", "append_cell", "set_row", "insert_row", "append_row",
              "extend_rows", "set_row_values", "set_row_cells", "set_values", "set_cells", "row_edit", "reuse_row"}
MUTATORS = ROW_ADDERS | {"delete_cell", "delete_row", "set_column_values", "set_column_cells", "set_column",
                         "insert_column", "append_column", "delete_column", "clear", "strip", "live_row", "transpose"}


def run_history(spec, ops, mode, ctx):
    r = Runner(spec, ctx, mode)
    r.check()
    for op in ops:
        if op["op"] in ROW_ADDERS:
            r.api_row_added = True
        r.apply(op)
    r.finish()
    return r


# ----------------------------------------------------------------- the state machine
def make_machine(ctx, mode, corpus_specs=(), warm_weight=1):
    """RuleBasedStateMachine whose rules emit concrete ops into a Runner."""

    kx = st.integers(0, 40)
    cell = st_cell()
    rowarg = st_row(maxcells=4, maxrep=3)
    vi = st.integers(0, len(VALUES) - 1)
    si = st.integers(0, len(STYLES) - 1)

    class TableMachine(RuleBasedStateMachine):
        def __init__(self):
            super().__init__()
            self.r = None
            self.warm_then_mutate = False
            self.last_warm = False

        @initialize(spec=st_initial(corpus_specs, underdeclared=(mode == "C02")))
        def init(self, spec):
            self.r = Runner(spec, ctx, mode)
            try:
                self.r.check()
            except Abandon:
                self.r.dead = True

        def go(self, op):
            r = self.r
            if r is None or r.dead:
                return
            name = op["op"]
            if name in ROW_ADDERS:
                r.api_row_added = True
            if name == "warm":
                self.last_warm = True
            elif name in MUTATORS:
                if self.last_warm:
                    self.warm_then_mutate = True
                    r.labels.add("warm-read-before-mutation")
                self.last_warm = False
            r.apply(op)

        def X(self, cls, k):
            return resolve(cls, k, min(self.r.m.width, MAXDIM))

        def Y(self, cls, k):
            return resolve(cls, k, min(self.r.m.height, MAXDIM))

        @rule(cx=COORD_CLS, kx_=kx, cy=COORD_CLS, ky=kx, v=vi, s=si, form=FORM)
        def set_value(self, cx, kx_, cy, ky, v, s, form):
            self.go({"op": "set_value", "x": self.X(cx, kx_), "y": self.Y(cy, ky), "v": v, "s": s, "form": form})

        @rule(cx=COORD_CLS, kx_=kx, cy=COORD_CLS, ky=kx, c=cell, form=FORM, clone=st.booleans())
        def set_cell(self, cx, kx_, cy, ky, c, form, clone):
            self.go({"op": "set_cell", "x": self.X(cx, kx_), "y": self.Y(cy, ky), "cell": c, "form": form, "clone": clone})

        @rule(cx=COORD_CLS, kx_=kx, cy=COORD_CLS, ky=kx, c=cell, form=FORM)
        def insert_cell(self, cx, kx_, cy, ky, c, form):
            self.go({"op": "insert_cell", "x": self.X(cx, kx_), "y": self.Y(cy, ky), "cell": c, "form": form})

        @rule(cy=COORD_CLS, ky=kx, c=cell, form=FORM1)
        def append_cell(self, cy, ky, c, form):
            self.go({"op": "append_cell", "y": self.Y(cy, ky), "cell": c, "form": form})

        @rule(cx=COORD_CLS, kx_=kx, cy=COORD_CLS, ky=kx, form=FORM)
        def delete_cell(self, cx, kx_, cy, ky, form):
            self.go({"op": "delete_cell", "x": self.X(cx, kx_), "y": self.Y(cy, ky), "form": form})

        KEEP = st.sampled_from([(False, False)] * 5 + [(True, False), (True, True), (True, True)])

        @rule(cy=COORD_CLS, ky=kx, r=rowarg, form=FORM1, keep=KEEP)
        def set_row(self, cy, ky, r, form, keep):
            op = {"op": "set_row", "y": self.Y(cy, ky), "row": r, "form": form}
            if keep[0]:
                op.update({"hold": True, "noclone": keep[1]})
            self.go(op)

        @rule(cy=COORD_CLS, ky=kx, r=rowarg, form=FORM1, keep=KEEP)
        def insert_row(self, cy, ky, r, form, keep):
            op = {"op": "insert_row", "y": self.Y(cy, ky), "row": r, "form": form}
            if keep[0]:
                op.update({"hold": True, "noclone": keep[1]})
            self.go(op)

        @rule(r=rowarg, keep=KEEP)
        def append_row(self, r, keep):
            op = {"op": "append_row", "row": r}
            if keep[0]:
                op.update({"hold": True, "noclone": keep[1]})
            self.go(op)

        @rule(v0=vi, rep=st.integers(2, 4), tailv=st.one_of(st.none(), vi), flush=st.sampled_from(["insert_row", "delete_row", "set_row", "none"]),
              xi=st.integers(0, 3), v=vi, s=si, again=st.booleans())
        def template_row_cycle(self, v0, rep, tailv, flush, xi, v, s, again):
            """a row handed over without copy and kept by the caller as a template: the table then edits the stored row
            (splitting a repeated cell: the width stays, the run structure changes), and the caller appends the kept
            object again."""
            r = self.r
            if r is None or r.dead or r.m.height > MAXDIM:
                return
            cells = [{"v": v0, "s": 0, "r": rep}]
            if tailv is not None:
                cells.append({"v": tailv, "s": 0, "r": 1})
            self.go({"op": "append_row", "row": {"cells": cells, "r": 1}, "hold": True, "noclone": True})
            if r.dead:
                return
            h = len(r.held) - 1
            y = r.m.height - 1
            if flush == "insert_row":
                self.go({"op": "insert_row", "y": 0, "row": {"cells": [], "r": 1}, "form": "t"})
                y += 1
            elif flush == "delete_row" and y > 0:
                self.go({"op": "delete_row", "y": 0, "form": "t"})
                y -= 1
            elif flush == "set_row" and y > 0:
                self.go({"op": "set_row", "y": 0, "row": {"cells": [{"v": v, "s": 0, "r": 1}], "r": 1}, "form": "t"})
            if r.dead:
                return
            self.go({"op": "set_value", "x": xi % rep, "y": y, "v": v, "s": s, "form": "t"})
            if r.dead:
                return
            self.go({"op": "reuse_row", "h": h, "via": "append_row", "y": 0})
            if again and not r.dead:
                self.go({"op": "set_value", "x": (xi + 1) % (rep + (1 if tailv is not None else 0)), "y": r.m.height - 1, "v": v0, "s": s, "form": "t"})

        @rule(h=st.integers(0, 3), via=st.sampled_from(["append_row", "append_row", "set_row", "insert_row"]), cy=COORD_CLS, ky=kx)
        def reuse_row(self, h, via, cy, ky):
            if self.r is None or self.r.dead or not self.r.held:
                return
            self.go({"op": "reuse_row", "h": h, "via": via, "y": self.Y(cy, ky)})

        @rule(rows=st.lists(rowarg, min_size=1, max_size=3))
        def extend_rows(self, rows):
            self.go({"op": "extend_rows", "rows": rows})

        @rule(cy=COORD_CLS, ky=kx, form=FORM1)
        def delete_row(self, cy, ky, form):
            self.go({"op": "delete_row", "y": self.Y(cy, ky), "form": form})

        @rule(cy=COORD_CLS, ky=kx, vals=st.lists(vi, max_size=5), s=si, form=FORM1)
        def set_row_values(self, cy, ky, vals, s, form):
            self.go({"op": "set_row_values", "y": self.Y(cy, ky), "vals": vals, "s": s, "form": form})

        @rule(cy=COORD_CLS, ky=kx, cells=st.lists(cell, max_size=4), form=FORM1)
        def set_row_cells(self, cy, ky, cells, form):
            self.go({"op": "set_row_cells", "y": self.Y(cy, ky), "cells": cells, "form": form})

        @rule(cx=COORD_CLS, kx_=kx, cy=COORD_CLS, ky=kx, s=si, form=FORM,
              matrix=st.lists(st.lists(vi, max_size=4), min_size=1, max_size=3))
        def set_values(self, cx, kx_, cy, ky, s, form, matrix):
            self.go({"op": "set_values", "x": self.X(cx, kx_), "y": self.Y(cy, ky), "matrix": matrix, "s": s, "form": form})

        @rule(cx=COORD_CLS, kx_=kx, cy=COORD_CLS, ky=kx, form=FORM,
              matrix=st.lists(st.lists(cell, max_size=3), min_size=1, max_size=3))
        def set_cells(self, cx, kx_, cy, ky, form, matrix):
            self.go({"op": "set_cells", "x": self.X(cx, kx_), "y": self.Y(cy, ky), "matrix": matrix, "form": form})

        @rule(cx=COORD_CLS, kx_=kx, s=si, form=FORM1, data=st.data(), wrong=st.integers(0, 9))
        def set_column_values(self, cx, kx_, s, form, data, wrong):
            h = self.r.m.height if self.r and not self.r.dead else 0
            n = h if wrong else h + 1
            if n > 40:
                return
            vals = data.draw(st.lists(vi, min_size=n, max_size=n))
            self.go({"op": "set_column_values", "x": self.X(cx, kx_), "vals": vals, "s": s, "form": form})

        @rule(cx=COORD_CLS, kx_=kx, form=FORM1, data=st.data())
        def set_column_cells(self, cx, kx_, form, data):
            h = self.r.m.height if self.r and not self.r.dead else 0
            if h > 40:
                return
            cells = data.draw(st.lists(cell, min_size=h, max_size=h))
            self.go({"op": "set_column_cells", "x": self.X(cx, kx_), "cells": cells, "form": form})

        @rule(cx=COORD_CLS, kx_=kx, r=st.integers(1, 3), cs=st.integers(0, 2), form=FORM1)
        def set_column(self, cx, kx_, r, cs, form):
            self.go({"op": "set_column", "x": self.X(cx, kx_), "r": r, "cs": cs, "form": form})

        @rule(cx=COORD_CLS, kx_=kx, r=st.integers(1, 3), cs=st.integers(0, 2), form=FORM1)
        def insert_column(self, cx, kx_, r, cs, form):
            self.go({"op": "insert_column", "x": self.X(cx, kx_), "r": r, "cs": cs, "form": form})

        @rule(r=st.integers(1, 3), cs=st.integers(0, 2))
        def append_column(self, r, cs):
            self.go({"op": "append_column", "r": r, "cs": cs})

        @rule(cx=COORD_CLS, kx_=kx, form=FORM1)
        def delete_column(self, cx, kx_, form):
            self.go({"op": "delete_column", "x": self.X(cx, kx_), "form": form})

        if mode in ("C02", "C07"):
            @rule(k=st.sampled_from(["rstrip", "optimize_width"]), aggr=st.booleans())
            def strip(self, k, aggr):
                self.go({"op": "strip", "k": k, "aggr": aggr})

        if mode in ("C02", "C07"):
            # read (fills the wrapper caches), strip, grow again, then edit where a declaration was re-created:
            # four primitive steps that a uniform choice of rules almost never lines up
            @rule(k=st.sampled_from(["rstrip", "optimize_width"]), aggr=st.booleans(),
                  wk=st.sampled_from(["columns", "get_column", "rows", "get_row_noclone", "get_column_cells", "none"]), kx_=kx, ky=kx,
                  grow=st.sampled_from(["set_value", "append_row", "append_column", "set_row_values"]), v=vi, s=si, r=rowarg,
                  gx=st.integers(0, 4), gy=st.integers(0, 4),
                  edit=st.sampled_from(["delete_column", "insert_column", "set_column", "delete_row", "insert_row", "set_value", "none"]),
                  ecls=COORD_CLS, ek=kx, er=st.integers(1, 3), ecs=st.integers(0, 2))
            def strip_cycle(self, k, aggr, wk, kx_, ky, grow, v, s, r, gx, gy, edit, ecls, ek, er, ecs):
                if self.r is None or self.r.dead:
                    return
                if wk != "none":
                    self.go({"op": "warm", "k": wk, "kx": kx_, "ky": ky})
                self.go({"op": "strip", "k": k, "aggr": aggr})
                if self.r.dead:
                    return
                w, h = self.r.m.width, self.r.m.height
                if grow == "set_value":
                    self.go({"op": "set_value", "x": min(w + gx, MAXDIM + 2), "y": min(h + gy, MAXDIM + 2), "v": v, "s": s, "form": "t"})
                elif grow == "append_row":
                    self.go({"op": "append_row", "row": r})
                elif grow == "append_column":
                    self.go({"op": "append_column", "r": er, "cs": ecs})
                else:
                    self.go({"op": "set_row_values", "y": min(h + gy, MAXDIM + 2), "vals": [v] * (gx + 1), "s": s, "form": "t"})
                if self.r.dead or edit == "none":
                    return
                self.r.labels.add("strip-regrow-edit")
                if edit in ("delete_column", "insert_column", "set_column"):
                    op = {"op": edit, "x": self.X(ecls, ek), "form": "t"}
                    if edit != "delete_column":
                        op.update({"r": er, "cs": ecs})
                    self.go(op)
                elif edit == "delete_row":
                    self.go({"op": "delete_row", "y": self.Y(ecls, ek), "form": "t"})
                elif edit == "insert_row":
                    self.go({"op": "insert_row", "y": self.Y(ecls, ek), "row": r, "form": "t"})
                else:
                    self.go({"op": "set_value", "x": self.X(ecls, ek), "y": self.Y(ecls, ek), "v": v, "s": s, "form": "t"})

        if mode in ("C02", "C07"):
            @rule(ky=kx, edits=st.lists(st.one_of(
                st.fixed_dictionaries({"k": st.sampled_from(["read", "read_table", "read"]), "kx": kx}),
                st.fixed_dictionaries({"k": st.just("read_first_trailing"), "aggr": st.booleans(), "via_row": st.booleans()}),
                st.fixed_dictionaries({"k": st.just("read_at_end")}),
                st.fixed_dictionaries({"k": st.just("read_at_end")}),
                st.fixed_dictionaries({"k": st.just("strip_probe"), "aggr": st.booleans()}),
                st.fixed_dictionaries({"k": st.just("strip_probe"), "aggr": st.booleans()}),
                st.fixed_dictionaries({"k": st.just("strip_probe"), "aggr": st.just(True)}),
                st.fixed_dictionaries({"k": st.just("delete_probe"), "kx": kx}),
                st.fixed_dictionaries({"k": st.just("delete_probe"), "kx": kx}),
                st.fixed_dictionaries({"k": st.just("rstrip"), "aggr": st.booleans()}),
                st.fixed_dictionaries({"k": st.just("rstrip"), "aggr": st.booleans()}),
                st.fixed_dictionaries({"k": st.just("set_value"), "kx": kx, "v": vi}),
                st.fixed_dictionaries({"k": st.just("delete_cell"), "kx": kx})), min_size=1, max_size=4),
                then_write=st.one_of(st.none(), vi, vi, vi))
            def live_row(self, ky, edits, then_write):
                self.go({"op": "live_row", "y": ky, "edits": edits, "then_write": then_write})

        if mode == "C02":
            @rule(wk=st.sampled_from(["get_row", "get_cell", "get_value", "get_row_noclone"]), kx_=kx, ky=kx, gx=st.integers(0, 6), r=st.integers(1, 2), cs=st.integers(0, 2))
            def wide_row_insert(self, wk, kx_, ky, gx, r, cs):
                """a cached read of a row, then a column inserted where only rows (wider than the declared columns) reach"""
                rr = self.r
                if rr is None or rr.dead or not rr.spec.get("underdeclared"):
                    return
                declared = rr.t.width
                widest = max([len(row_) for row_ in rr.m.rows] + [0])
                if widest <= declared:
                    return
                x_ = declared + gx % (widest - declared)
                self.go({"op": "warm", "k": wk, "kx": kx_, "ky": ky})
                self.go({"op": "insert_column", "x": x_, "r": r, "cs": cs, "form": "t"})

        @rule(really=st.integers(0, 5))
        def clear(self, really):
            if really == 0:
                self.go({"op": "clear"})

        @rule(cy=COORD_CLS, ky=kx, unrepeat=st.booleans(), push=st.sampled_from(["set_row", "set_row", "insert_row"]),
              tcls=COORD_CLS, tk=kx,
              edits=st.lists(st.one_of(
                  st.fixed_dictionaries({"k": st.just("set_value"), "cls": COORD_CLS, "kx": kx, "v": vi, "s": si, "form": FORM1}),
                  st.fixed_dictionaries({"k": st.just("set_cell"), "cls": COORD_CLS, "kx": kx, "cell": cell, "form": FORM1}),
                  st.fixed_dictionaries({"k": st.just("insert_cell"), "cls": COORD_CLS, "kx": kx, "cell": cell, "form": FORM1}),
                  st.fixed_dictionaries({"k": st.just("append_cell"), "cls": st.just("in"), "kx": st.just(0), "cell": cell}),
                  st.fixed_dictionaries({"k": st.just("delete_cell"), "cls": COORD_CLS, "kx": kx, "form": FORM1}),
                  st.fixed_dictionaries({"k": st.just("set_values"), "cls": COORD_CLS, "kx": kx, "vals": st.lists(vi, max_size=4), "s": si}),
                  st.fixed_dictionaries({"k": st.just("set_cells"), "cls": COORD_CLS, "kx": kx, "cells": st.lists(cell, max_size=3)}),
              ), min_size=1, max_size=3))
        def row_edit(self, cy, ky, unrepeat, push, tcls, tk, edits):
            self.go({"op": "row_edit", "y": self.Y(cy, ky), "unrepeat": unrepeat, "push": push, "tcls": tcls, "tk": tk,
                     "edits": edits})

        @rule(k=st.sampled_from(["get_row", "get_row_noclone", "get_cell", "get_value", "traverse", "get_column", "rows",
                                 "cells", "get_column_cells", "columns", "get_values", "get_row_values"]),
              kx_=kx, ky=kx)
        def warm(self, k, kx_, ky):
            self.go({"op": "warm", "k": k, "kx": kx_, "ky": ky})

        if warm_weight > 1:
            @rule(k=st.sampled_from(["get_row", "get_cell", "traverse", "get_column", "get_row_noclone", "get_value"]),
                  kx_=kx, ky=kx)
            def warm2(self, k, kx_, ky):
                self.go({"op": "warm", "k": k, "kx": kx_, "ky": ky})

            @rule(k=st.sampled_from(["get_row", "get_cell", "get_column_cells", "rows"]), kx_=kx, ky=kx)
            def warm3(self, k, kx_, ky):
                self.go({"op": "warm", "k": k, "kx": kx_, "ky": ky})

        @rule(cx=COORD_CLS, kx_=kx, cy=COORD_CLS, ky=kx, dx=st.integers(0, 4), dy=st.integers(0, 4), form=FORM)
        def read_area(self, cx, kx_, cy, ky, dx, dy, form):
            if mode != "C01":
                return
            x, y = self.X(cx, kx_), self.Y(cy, ky)
            self.go({"op": "read_area", "x": x, "y": y, "z": x + dx, "t": y + dy, "form": form})

        def teardown(self):
            r = self.r
            if r is None:
                return
            r.finish()
            for lab in r.labels:
                ctx.count("history:" + lab)
            ctx.count("histories")
            nontrivial = r.nt if mode != "C02" else self.warm_then_mutate
            if nontrivial and not r.dead:
                ctx.nontrivial({"i": r.spec, "o": r.ops})
                ctx.count("histories-nontrivial")
                if len(ctx.samples) < 3 and len(r.ops) >= 3:
                    ctx.sample({"initial": r.spec, "ops": r.ops[:12], "labels": sorted(r.labels)})

    return TableMachine
