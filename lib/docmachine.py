"""Document histories shared by C03 (save/reopen loses nothing) and C04 (valid package).

A history = source + list of concrete ops (plain dicts) executed by DocRunner on
an odfdo Document while an independent *package model* (names, binary contents,
text tokens that must be visible) is maintained.  Saves are judged by reading
the produced package with zipfile / os.walk + lxml only.
"""
from __future__ import annotations

import io
import os
import shutil
import zipfile
from pathlib import Path

from hypothesis import strategies as st
from hypothesis.stateful import RuleBasedStateMachine, initialize, rule

from . import corpus, odfread
from .harness import ROOT, Abandon

XML_PARTS = {"content.xml", "styles.xml", "meta.xml", "settings.xml", "META-INF/manifest.xml"}
SHORT = {"content": "content.xml", "styles": "styles.xml", "meta": "meta.xml", "settings": "settings.xml", "manifest": "META-INF/manifest.xml"}
PNG = b"\x89PNG\r\n\x1a\n" + b"\x00" * 16


def scratch_dir(tag):
    d = ROOT / ".scratch" / f"{tag}-{os.getpid()}"
    d.mkdir(parents=True, exist_ok=True)
    return d


def norm(name):
    return name.replace("\\", "/")


def strip_generator(xml_bytes):
    """C14N of a meta part with the meta:generator text blanked."""
    root = odfread.parse(xml_bytes)
    for g in root.iter(odfread.q("meta:generator")):
        g.text = None
    return odfread.c14n(root)


def canon(name, data):
    if name.endswith("meta.xml"):
        return strip_generator(data)
    return odfread.c14n(data)


class DocRunner:
    def __init__(self, source, ctx, prop, tag="doc"):
        self.ctx = ctx
        self.prop = prop
        self.source = source
        self.ops = []
        self.dead = False
        self.labels = set()
        self.scratch = scratch_dir(f"{prop}-{tag}-{ctx.shard}")
        self.n = 0
        self.tokens = {"content.xml": [], "meta.xml": [], "styles.xml": []}
        self._user = []
        self.unread = True
        self.edited = set()
        self.saves = 0
        with ctx.guard((prop, "open", "exception"), self.case):
            self.doc, self.model, self.baseline = self._open(source)
        self.lazy = source.get("how") == "path"
        if self.lazy:
            self.labels.add("lazy-open")

    def case(self):
        return {"source": self.source, "ops": list(self.ops)}

    # ---- opening -------------------------------------------------------------
    def _open(self, source):
        from odfdo import Document

        kind = source["kind"]
        if kind == "template":
            doc = Document(source["name"])
            buf = io.BytesIO()
            # model of a template = what a save of the untouched new document contains
            model = None
        elif kind == "new":
            # Document.new(<any package used as a custom template>): same parts, regular (non-template) mimetype
            path = corpus.samples_dir() / source["name"]
            data = path.read_bytes()
            if source.get("how") == "bytesio":
                doc = Document.new(io.BytesIO(data))
            else:
                p = self.scratch / f"tpl{self.n}-{source['name']}"
                p.write_bytes(data)
                doc = Document.new(str(p))
            infos, parts = odfread.read_zip(data)
            model = {norm(k): v for k, v in parts.items()}
            model["mimetype"] = model["mimetype"].replace(b"-template", b"")
            self.edited.add("META-INF/manifest.xml")
        else:
            path = corpus.samples_dir() / source["name"]
            data = path.read_bytes()
            if source.get("decor"):
                data = corpus.decorate(data)
                self.labels.add("comments-and-PIs")
            if source.get("variant"):
                data = corpus.variant(data, source["variant"])
                self.labels.add("source-variant:" + source["variant"])
            how = source["how"]
            if how == "path":
                # private copy: the check never works on the repository's files in place
                p = self.scratch / f"src{self.n}-{source['name']}"
                p.write_bytes(data)
                doc = Document(str(p))
                self.origin = ("zip", p)
            elif how == "bytesio":
                doc = Document(io.BytesIO(data))
            else:  # folder written by an independent unzip
                folder = self.scratch / f"src{self.n}-{source['name']}.folder"
                shutil.rmtree(folder, ignore_errors=True)
                with zipfile.ZipFile(io.BytesIO(data)) as z:
                    for info in z.infolist():
                        target = folder / info.filename
                        if info.filename.endswith("/"):
                            target.mkdir(parents=True, exist_ok=True)
                        else:
                            target.parent.mkdir(parents=True, exist_ok=True)
                            target.write_bytes(z.read(info.filename))
                doc = Document(str(folder))
                self.origin = ("folder", folder)
            infos, parts = odfread.read_zip(data)
            model = {norm(k): v for k, v in parts.items()}
        if model is None:
            buf = io.BytesIO()
            Document(source["name"]).container.save(buf)
            infos, parts = odfread.read_zip(buf.getvalue())
            model = {norm(k): v for k, v in parts.items()}
        baseline = set(lint_package_parts(model, None))
        return doc, model, baseline

    # ---- ops -----------------------------------------------------------------------
    def apply(self, op):
        if self.dead:
            return
        self.ops.append(op)
        self.ctx.ev()
        self.ctx.count("op:" + op["op"])
        try:
            with self.ctx.guard((self.prop, op["op"], "exception"), self.case):
                getattr(self, "op_" + op["op"])(op)
        except Abandon:
            self.dead = True

    def _tok(self, part="content.xml"):
        self.n += 1
        t = f"TOK{self.n}q"
        self.tokens[part].append(t)
        self.edited.add(part)
        return t

    def op_read(self, op):
        what = op["what"]
        d = self.doc
        if what == "body":
            d.body  # noqa: B018
        elif what == "meta":
            d.meta.get_title()
        elif what == "styles":
            d.styles.root  # noqa: B018
        elif what == "manifest":
            d.manifest.get_paths()
        elif what == "settings":
            d.get_part("settings").root  # noqa: B018
        else:
            names = sorted(n for n in self.model if n not in XML_PARTS and not n.endswith("/") and n != "mimetype")
            if names:
                d.get_part(names[op.get("i", 0) % len(names)])
        self.unread = False

    def op_paragraph(self, op):
        from odfdo import Header, Paragraph

        body = self.doc.body
        t = self._tok()
        if op.get("h"):
            body.append(Header(1, t + " " + op.get("text", "")))
        else:
            body.append(Paragraph(t + " " + op.get("text", "")))

    # ---- wrappers that outlive a save: obtained once, edited later without asking the document again -------------
    kept = None

    def op_keep(self, op):
        from odfdo import Paragraph, Style

        body = self.doc.body
        t = self._tok()
        para = Paragraph(t + " kept")
        body.append(para)
        self.n += 1
        name = f"kstyle{self.n}"
        self.doc.insert_style(Style("paragraph", name=name, area="text", italic=True))
        self.tokens["styles.xml"].append(name)
        self.edited.add("styles.xml")
        self.kept = {"body": body, "para": para, "style": self.doc.get_style("paragraph", name), "meta": self.doc.meta}
        self.labels.add("wrappers-kept")

    def op_edit_kept(self, op):
        """edit through the kept wrappers only (no doc.body / doc.content / doc.get_style call)"""
        from odfdo import Paragraph

        if not self.kept:
            return
        self.n += 1
        t = f"KTOK{self.n}q"
        which = op.get("which", "para")
        if which == "para":
            self.kept["para"].append(" " + t)
            self.tokens["content.xml"].append(t)
            self.edited.add("content.xml")
        elif which == "body":
            self.kept["body"].append(Paragraph(t))
            self.tokens["content.xml"].append(t)
            self.edited.add("content.xml")
        elif which == "style":
            self.kept["style"].set_attribute("style:class", t)
            # the attribute holds one value: the previous token of this kind is overwritten
            self.tokens["styles.xml"] = [x for x in self.tokens["styles.xml"] if x != self.kept.get("style_tok")] + [t]
            self.kept["style_tok"] = t
            self.edited.add("styles.xml")
        else:
            self.kept["meta"].set_user_defined_metadata(f"kk{self.n}", t)
            self._user.append(t)
            self.tokens["meta.xml"] = list(self._user) + ([self._title] if self._title else []) + ([self._gen] if self._gen else [])
            self.edited.add("meta.xml")
        self.labels.add("edit-through-kept-wrapper")

    def op_table(self, op):
        from odfdo import Table

        body = self.doc.body
        t = self._tok()
        table = Table(f"T{self.n}", width=2, height=2)
        table.set_value((0, 0), t)
        table.set_value((1, 1), op.get("v", 1))
        body.append(table)

    def op_list(self, op):
        from odfdo import List

        t = self._tok()
        self.doc.body.append(List([t, "item"]))

    def op_style(self, op):
        from odfdo import Style

        self.n += 1
        name = f"vstyle{self.n}"
        self.doc.insert_style(Style("paragraph", name=name, area="text", bold=True), automatic=bool(op.get("auto")))
        part = "content.xml" if op.get("auto") else "styles.xml"
        self.tokens[part].append(name)
        self.edited.add(part)

    def op_meta(self, op):
        m = self.doc.meta
        self.n += 1
        t = f"TOK{self.n}q"
        self.edited.add("meta.xml")
        if op.get("user"):
            m.set_user_defined_metadata(f"k{self.n}", t)
            self._user.append(t)
        else:
            m.title = t
            self._title = t
        self.tokens["meta.xml"] = list(self._user) + ([self._title] if self._title else []) + ([self._gen] if self._gen else [])

    _title = None
    _gen = None

    def op_generator(self, op):
        """the generator string set by the user (to a new value, or to the value it already has) is what the file says"""
        m = self.doc.meta
        cur = m.generator
        self.n += 1
        if op.get("same") and cur and "&" not in cur and "<" not in cur:
            m.generator = cur
            self._gen = cur
            self.labels.add("generator-set-to-same-value")
        else:
            self._gen = f"GENTOK{self.n}q"
            m.generator = self._gen
        self.edited.add("meta.xml")
        self.tokens["meta.xml"] = list(self._user) + ([self._title] if self._title else []) + [self._gen]

    def op_add_file(self, op):
        self.n += 1
        data = PNG + bytes([op.get("c", 0) % 4])  # few distinct contents: same content twice is frequent
        if op.get("path"):
            p = self.scratch / f"img{op.get('c', 0) % 4}.png"
            p.write_bytes(data)
            uri = self.doc.add_file(str(p))
        else:
            uri = self.doc.add_file(io.BytesIO(data))
        if uri in self.model:
            self.labels.add("add_file-same-content-twice")
        self.model[uri] = data
        self.edited.add("META-INF/manifest.xml")
        self.added = getattr(self, "added", []) + [uri]
        if op.get("frame"):
            from odfdo import Frame, Paragraph

            frame = Frame.image_frame(uri, size=("1cm", "1cm"), anchor_type="paragraph")
            p = Paragraph(self._tok())
            p.append(frame)
            self.doc.body.append(p)

    def op_del_part(self, op):
        names = sorted(n for n in self.model if n not in XML_PARTS and not n.endswith("/") and n != "mimetype"
                       and Path(n).name not in ("content.xml", "styles.xml", "meta.xml", "settings.xml", "manifest.xml"))
        if not names:
            return
        added = [n for n in getattr(self, "added", []) if n in names]
        if op.get("pick") == "last-added" and added:
            names = [added[-1]]
        elif op.get("pick") == "added" and added:
            names = added
        name = names[op.get("i", 0) % len(names)]
        self.doc.del_part(name)
        del self.model[name]
        self.deleted = getattr(self, "deleted", set()) | {name}
        self.edited.add("META-INF/manifest.xml")
        self.labels.add("del_part")

    def op_set_part_bin(self, op):
        names = sorted(n for n in self.model if n not in XML_PARTS and not n.endswith("/") and n != "mimetype"
                       and Path(n).name not in ("content.xml", "styles.xml", "meta.xml", "settings.xml", "manifest.xml"))
        self.n += 1
        data = b"BIN" + str(self.n).encode()
        if op.get("existing", True):
            if not names:
                return
            name = names[op.get("i", 0) % len(names)]
        else:
            name = f"Extra/blob{self.n}.bin"
        self.doc.set_part(name, data)
        self.model[name] = data

    def op_set_part_xml(self, op):
        """Replace content.xml by bytes holding a fresh token (before or after the part was parsed)."""
        self.kept = None  # wrappers into the replaced part no longer belong to the document
        from odfdo import Document

        other = Document(self.doc.get_type() if self.doc.get_type() in ("text", "spreadsheet", "presentation", "drawing") else "text")
        self.n += 1
        tok = f"SETTOK{self.n}q"
        from odfdo import Paragraph, Table

        if other.get_type() == "spreadsheet":
            t = Table("S")
            t.set_value((0, 0), tok)
            other.body.append(t)
        elif other.get_type() == "text":
            other.body.append(Paragraph(tok))
        else:
            return
        data = other.content.serialize()
        self.doc.set_part("content" if op.get("short") else "content.xml", data)
        self.tokens["content.xml"] = [tok]
        self.edited.add("content.xml")
        self.set_xml = data
        self.labels.add("set_part-xml-" + ("unread" if self.unread else "after-read"))

    set_xml = None
    reuse_buf = None
    origin = None  # (packaging, path) the current document was opened from, when it was opened from the file system

    def op_merge_styles(self, op):
        from odfdo import Document, Element

        names = [p.name for p in corpus.sample_files() if p.suffix == ".odt" and p.stat().st_size < 40000]
        # sources whose styles reference pictures: two samples, and synthetic ones sharing the add_file contents
        names += ["example.odp", "background.odp", "synth:0", "synth:1", "synth:2", "synth:3", "synth:0", "synth:1"]
        name = op["i"] if isinstance(op.get("i"), str) else names[op.get("i", 0) % len(names)]
        if name.startswith("synth:"):
            c = int(name[6:])
            data = PNG + bytes([c])
            other = Document("drawing" if c % 2 else "text")
            uri = other.add_file(io.BytesIO(data))
            other.insert_style(Element.from_tag(
                f'<draw:fill-image draw:name="Fill{c}" xlink:href="{uri}" xlink:type="simple" xlink:show="embed" xlink:actuate="onLoad"/>'))
            oparts = {uri: data}
            pictures = {uri: data}
            self.labels.add("merge_styles-synthetic-picture")
        else:
            path = corpus.samples_dir() / name
            other = Document(str(path))
            _i, oparts = odfread.read_zip(path.read_bytes())
            pictures = {}
            root = odfread.etree.fromstring(oparts["styles.xml"])
            hrefs = [e.get(odfread.q("xlink:href")) for e in root.iter(odfread.q("draw:fill-image"))]
            for mp in root.iter(odfread.q("style:master-page")):
                hrefs += [e.get(odfread.q("xlink:href")) for e in mp.iter(odfread.q("draw:image"))]
            for h in hrefs:
                if h in oparts:
                    pictures[h] = oparts[h]
        if pictures:
            self.labels.add("merge_styles-with-pictures")
            if any(u in getattr(self, "deleted", ()) for u in pictures):
                self.labels.add("merge_styles-picture-after-del_part")
        self.doc.merge_styles_from(other)
        self.edited.add("styles.xml")
        self.edited.add("content.xml")
        self.edited.add("META-INF/manifest.xml")
        self.labels.add("merge_styles")
        # pictures referenced by the merged styles travel with them (same name, the source's bytes)
        for u, data in pictures.items():
            self.model[u] = data
            d = u.rsplit("/", 1)[0] + "/" if "/" in u else None
            if d and d not in self.model:
                self.model[d] = b""
        self.merged_from = dict(self.merged_from or {}, **oparts)

    merged_from = None

    def op_retemplate(self, op):
        """the document is written to a template path (always the same one within a history) and a new document is made
        from that path: what the new document holds is what the file holds now"""
        from odfdo import Document

        p = self.scratch / f"template.od{_ext(self.doc)}"
        self.doc.save(str(p))
        data = p.read_bytes()
        self.doc = Document.new(str(p))
        infos, parts = odfread.read_zip(data)
        self.model = {norm(k): v for k, v in parts.items()}
        self.model["mimetype"] = self.model["mimetype"].replace(b"-template", b"")
        self.kept = None
        self.origin = None
        self._gen = None
        self.tokens["meta.xml"] = list(self._user) + ([self._title] if self._title else [])
        self.set_xml = None
        self.edited = {"META-INF/manifest.xml"}
        self.unread = True
        self.labels.add("new-from-rewritten-template-path" if getattr(self, "_retpl", False) else "new-from-template-path")
        self._retpl = True

    def op_clone(self, op):
        self.doc = self.doc.clone
        self.kept = None
        self.origin = None  # a clone is not tied to the file of the original
        self.labels.add("clone")

    # ---- save + judge ---------------------------------------------------------------
    def op_save(self, op):
        from odfdo import Document

        packaging = op["packaging"]
        if op.get("target") == "same" and self.origin and packaging != "xml":
            packaging = self.origin[0]  # in place = in the packaging it was opened in
        self.saves += 1
        self.n += 1
        new_origin = None
        nontrivial = self.lazy and self.unread and bool(self.edited)
        if packaging == "zip" and op.get("target") == "bytesio-reuse":
            # the same BytesIO object receives every save of this history (and is the source when reopened)
            if self.reuse_buf is None:
                self.reuse_buf = io.BytesIO()
            self.doc.save(self.reuse_buf)
            data = self.reuse_buf.getvalue()
            rb = self.reuse_buf
            reopen = lambda: Document(rb)  # noqa: E731
            self.labels.add("bytesio-reused" if self.saves > 1 else "bytesio-first")
            try:
                saved = self._read_zip(data)
            except Exception as e:
                self.ctx.fail((self.prop, "save-zip", "reused-buffer-not-a-valid-zip"),
                              f"saving again into the same BytesIO leaves an unreadable archive: {e!r}", self.case)
                return
        elif packaging == "zip" and op.get("target") == "bytesio":
            buf = io.BytesIO()
            self.doc.save(buf)
            data = buf.getvalue()
            reopen = lambda: Document(io.BytesIO(data))  # noqa: E731
            saved = self._read_zip(data)
        elif packaging == "zip" and op.get("target") == "same" and self.origin and self.origin[0] == "zip":
            # saved in place, over the file the document was opened from
            p = self.origin[1]
            self.doc.save()
            data = p.read_bytes()
            reopen = lambda: Document(str(p))  # noqa: E731
            saved = self._read_zip(data)
            new_origin = ("zip", p)
            self.labels.add("saved-in-place-zip")
        elif packaging == "folder" and op.get("target") == "same" and self.origin and self.origin[0] == "folder":
            folder = self.origin[1]
            self.doc.save(packaging="folder", pretty=False)
            saved = {"infos": None, "parts": {k: v for k, v in odfread.read_folder(folder).items()}, "raw": None}
            reopen = lambda: Document(str(folder))  # noqa: E731
            new_origin = ("folder", folder)
            self.labels.add("saved-in-place-folder")
        elif packaging == "zip":
            p = self.scratch / f"out{self.n}.od{_ext(self.doc)}"
            self.doc.save(str(p))
            data = p.read_bytes()
            reopen = lambda: Document(str(p))  # noqa: E731
            saved = self._read_zip(data)
            new_origin = ("zip", p)
        elif packaging == "folder":
            p = self.scratch / f"out{self.n}"
            self.doc.save(str(p), packaging="folder", pretty=False)
            folder = Path(str(p) + ".folder")
            saved = {"infos": None, "parts": {k: v for k, v in odfread.read_folder(folder).items()}, "raw": None}
            reopen = lambda: Document(str(folder))  # noqa: E731
            new_origin = ("folder", folder)
        else:
            buf = io.BytesIO()
            self.doc.save(buf, packaging="xml", pretty=bool(op.get("pretty")))
            self.judge_flat(buf.getvalue())
            return
        self.judge(saved, packaging)
        if nontrivial:
            self.labels.add("lazy-unread-edited-save")
        if op.get("reopen", True):
            doc2 = reopen()
            self.judge_reopened(doc2, saved)
            self.doc = doc2
            self.kept = None
            # a reopened document is stamped with the library's generator at its next save (documented): the token goes
            self._gen = None
            self.tokens["meta.xml"] = list(self._user) + ([self._title] if self._title else [])
            self.origin = new_origin
            self.labels.add("reopened")
            self.lazy = packaging == "zip" and op.get("target") != "bytesio"
            self.unread = True
            # the saved package is the new source
            self.model = dict(saved["parts"])
            self.set_xml = None
            self.edited = set()

    def _read_zip(self, data):
        infos, parts = odfread.read_zip(data)
        return {"infos": infos, "parts": {norm(k): v for k, v in parts.items()}, "raw": data}

    def judge(self, saved, packaging):
        ctx, prop = self.ctx, self.prop
        parts = saved["parts"]
        if prop == "C04":
            if saved["infos"] is not None:
                self.judge_package(saved)
            return
        # ---- C03 -------------------------------------------------------------------------
        want_names = {n for n in self.model if n != "manifest.rdf"}
        got_names = {n for n in parts if n != "manifest.rdf"}
        if self.merged_from:
            got_names = {n for n in got_names if n in want_names or n not in self.merged_from}
        ctx.check(got_names == want_names, (prop, "save-" + packaging, "part-names"),
                  f"parts lost {sorted(want_names - got_names)}, invented {sorted(got_names - want_names)}", self.case)
        ctx.check(parts.get("mimetype") == self.model.get("mimetype"), (prop, "save-" + packaging, "mimetype"),
                  f"mimetype {parts.get('mimetype')!r}, expected {self.model.get('mimetype')!r}", self.case)
        for name in sorted(want_names & got_names):
            if name.endswith("/") or name == "mimetype":
                continue
            is_xml = Path(name).name in ("content.xml", "styles.xml", "meta.xml", "settings.xml", "manifest.xml")
            if not is_xml:
                ctx.check(parts[name] == self.model[name], (prop, "save-" + packaging, "binary-part"),
                          f"{name}: {len(parts[name])} bytes saved, {len(self.model[name])} expected (content differs)", self.case)
                continue
            toks = self.tokens.get(name, [])
            text = parts[name].decode("utf-8", "replace")
            pos = -1
            for t in toks:
                at = text.find(t)
                ctx.check(at >= 0, (prop, "save-" + packaging, "edit-lost", name), f"{name}: edit token {t} is not in the saved part", self.case)
                if name == "content.xml" and at >= 0 and t.startswith(("TOK", "SETTOK")):
                    ctx.check(at > pos, (prop, "save-" + packaging, "edit-order", name), f"{name}: token {t} out of order", self.case)
                    pos = at
            if name == "content.xml" and self.set_xml is not None and len(toks) == 1 and toks[0].startswith("SETTOK"):
                # replaced through set_part and not edited since: exactly those bytes
                ctx.check(canon(name, parts[name]) == canon(name, self.set_xml), (prop, "save-" + packaging, "set_part-xml"),
                          "content.xml saved differs from the bytes given to set_part", self.case)
            elif name not in self.edited and name in self.model:
                same = canon(name, parts[name]) == canon(name, self.model[name])
                ctx.check(same, (prop, "save-" + packaging, "untouched-part-changed", name),
                          f"{name} was never edited but its XML infoset changed on save", self.case)
            # memory == saved
            short = {v: k for k, v in SHORT.items()}.get(name)
            if short:
                mem = self.doc.get_part(short).serialize()
                ctx.check(canon(name, mem) == canon(name, parts[name]), (prop, "save-" + packaging, "memory-vs-saved", name),
                          f"{name}: the in-memory part differs from what was written", self.case)

    def judge_reopened(self, doc2, saved):
        ctx, prop = self.ctx, self.prop
        if prop != "C03":
            return
        with ctx.guard((prop, "reopen", "exception"), self.case):
            for name, data in sorted(saved["parts"].items()):
                if name.endswith("/"):
                    continue
                short = {v: k for k, v in SHORT.items()}.get(name)
                if short:
                    got = doc2.get_part(short).serialize()
                    ctx.check(canon(name, got) == canon(name, data), (prop, "reopen", "xml-part", name),
                              f"{name}: reopened document differs from the saved part", self.case)
                elif name == "mimetype":
                    ctx.check(doc2.mimetype.encode() == data, (prop, "reopen", "mimetype"), f"{doc2.mimetype!r} vs {data!r}", self.case)
                else:
                    got = doc2.get_part(name)
                    if not isinstance(got, (bytes, bytearray)):
                        got = got.serialize() if hasattr(got, "serialize") else got
                        ctx.check(odfread.c14n(got) == odfread.c14n(data), (prop, "reopen", "xml-part", name), f"{name} differs", self.case)
                    else:
                        ctx.check(got == data, (prop, "reopen", "binary-part"), f"{name}: reopened bytes differ", self.case)

    def judge_flat(self, data):
        ctx, prop = self.ctx, self.prop
        if prop != "C03":
            return
        try:
            root = odfread.parse(data)
        except Exception as e:
            ctx.fail((prop, "save-xml", "not-well-formed"), f"flat XML does not parse: {e}", self.case)
            return
        ctx.check(root.get(odfread.q("office:mimetype")) == self.model.get("mimetype", b"").decode(), (prop, "save-xml", "mimetype"),
                  f"office:mimetype={root.get(odfread.q('office:mimetype'))!r}", self.case)
        text = data.decode("utf-8", "replace")
        for t in self.tokens.get("content.xml", []):
            ctx.check(t in text, (prop, "save-xml", "edit-lost"), f"token {t} missing from the flat XML", self.case)
        self.labels.add("flat-xml")

    def judge_package(self, saved):
        problems = lint_package_parts(saved["parts"], saved["infos"])
        for code, what in problems:
            if (code, what) in self.baseline:
                self.ctx.count("baseline-exempt:" + code)
                continue
            self.ctx.fail((self.prop, "package", code), f"{code}: {what}", self.case)

    def finish(self):
        shutil.rmtree(self.scratch, ignore_errors=True)


def _ext(doc):
    return {"text": "t", "spreadsheet": "s", "presentation": "p", "drawing": "g", "graphics": "g"}.get(doc.get_type(), "t")


def lint_package_parts(parts, infos):
    """C04 validity predicate over a package read independently.  -> [(code, detail)]"""
    out = []
    names = list(parts)
    if infos is not None:
        first = infos[0]
        if first.filename != "mimetype":
            out.append(("mimetype-not-first", first.filename))
        else:
            if first.compress_type != zipfile.ZIP_STORED:
                out.append(("mimetype-compressed", str(first.compress_type)))
            if first.extra:
                out.append(("mimetype-extra-field", repr(first.extra[:8])))
        seen = set()
        for i in infos:
            if i.filename in seen:
                out.append(("duplicate-zip-entry", i.filename))
            seen.add(i.filename)
    if "mimetype" not in parts:
        out.append(("no-mimetype", ""))
    man = parts.get("META-INF/manifest.xml")
    if man is None:
        out.append(("no-manifest", ""))
        return out
    try:
        entries = odfread.read_manifest(man)
    except Exception as e:
        out.append(("manifest-not-xml", str(e)))
        return out
    paths = [p for p, _m in entries]
    dup = sorted({p for p in paths if paths.count(p) > 1})
    for p in dup:
        out.append(("manifest-duplicate", p))
    root_types = [m for p, m in entries if p == "/"]
    if not root_types:
        out.append(("manifest-no-root", ""))
    elif "mimetype" in parts and root_types[0] != parts["mimetype"].decode("utf-8", "replace"):
        out.append(("manifest-root-type", f"{root_types[0]!r} vs mimetype {parts['mimetype']!r}"))
    files = [n for n in names if not n.endswith("/")]
    for n in files:
        if n == "mimetype" or n.startswith("META-INF/"):
            continue
        if paths.count(n) == 0:
            out.append(("file-not-in-manifest", n))
    for p in set(paths):
        if p == "/":
            continue
        if p.endswith("/"):
            # directory entries are not files: office suites list directories without any file below
            continue
        elif p not in parts:
            out.append(("manifest-lists-absent-file", p))
    return out


# ----------------------------------------------------------------- sources / machine
def sources(ctx, big=False):
    out = [{"kind": "template", "name": t} for t in corpus.TEMPLATES]
    for p in corpus.sample_files():
        if p.stat().st_size > 60_000 and not big:
            continue
        for how in ("path", "bytesio", "folder"):
            out.append({"kind": "sample", "name": p.name, "how": how})
        if p.stat().st_size < 30_000:
            out.append({"kind": "sample", "name": p.name, "how": ("path", "bytesio", "folder")[len(out) % 3], "decor": True})
            # other encodings of the XML parts, repeated directory entries in the zip directory
            v = ("latin1", "utf16", "dupdirs")[len(out) % 3]
            out.append({"kind": "sample", "name": p.name, "how": ("path", "bytesio") [len(out) % 2] if v != "dupdirs" else "path", "variant": v})
        if p.suffix in (".odt", ".ods", ".odp", ".odg", ".ott", ".ots", ".otp", ".otg") and p.stat().st_size < 40_000:
            out.append({"kind": "new", "name": p.name, "how": "path" if len(out) % 2 else "bytesio"})
    return out


def make_doc_machine(ctx, prop, extra_ops=()):
    srcs = sources(ctx, big=ctx.thorough)

    class DocMachine(RuleBasedStateMachine):
        def __init__(self):
            super().__init__()
            self.r = None

        @initialize(src=st.sampled_from(srcs))
        def init(self, src):
            self.r = DocRunner(src, ctx, prop)

        def go(self, op):
            if self.r is not None and not self.r.dead:
                self.r.apply(op)

        @rule(what=st.sampled_from(["body", "meta", "styles", "manifest", "settings", "bin"]), i=st.integers(0, 9))
        def read(self, what, i):
            self.go({"op": "read", "what": what, "i": i})

        @rule(h=st.booleans(), text=st.sampled_from(["", "a  b", "x<y&z", "é\tb"]))
        def paragraph(self, h, text):
            self.go({"op": "paragraph", "h": h, "text": text})

        @rule(v=st.sampled_from([1, 2.5, True, "s"]))
        def table(self, v):
            self.go({"op": "table", "v": v})

        @rule()
        def list_(self):
            self.go({"op": "list"})

        @rule(auto=st.booleans())
        def style(self, auto):
            self.go({"op": "style", "auto": auto})

        @rule(user=st.booleans())
        def meta(self, user):
            self.go({"op": "meta", "user": user})

        @rule(c=st.integers(0, 3), path=st.booleans(), frame=st.booleans())
        def add_file(self, c, path, frame):
            self.go({"op": "add_file", "c": c, "path": path, "frame": frame})

        @rule(i=st.integers(0, 9), pick=st.sampled_from(["any", "added"]))
        def del_part(self, i, pick):
            self.go({"op": "del_part", "i": i, "pick": pick})

        @rule(i=st.integers(0, 9), existing=st.booleans())
        def set_part_bin(self, i, existing):
            # set_part is the low-level call: only C03 lets it create parts the manifest does not know
            self.go({"op": "set_part_bin", "i": i, "existing": existing or prop == "C04"})

        @rule(short=st.booleans())
        def set_part_xml(self, short):
            self.go({"op": "set_part_xml", "short": short})

        if prop == "C04":
            @rule(i=st.integers(0, 40))
            def merge_styles(self, i):
                self.go({"op": "merge_styles", "i": i})

            @rule()
            def clone(self):
                self.go({"op": "clone"})

        @rule(packaging=st.sampled_from(["zip", "zip", "folder", "xml"] if prop == "C03" else ["zip", "zip", "zip", "folder"]),
              tgt=st.sampled_from(["path", "bytesio", "bytesio-reuse", "bytesio-reuse", "same", "same"]), reopen=st.booleans(), pretty=st.booleans())
        def save(self, packaging, tgt, reopen, pretty):
            self.go({"op": "save", "packaging": packaging, "target": tgt, "reopen": reopen, "pretty": pretty})

        @rule(which=st.lists(st.sampled_from(["para", "body", "style", "meta"]), min_size=1, max_size=3),
              packaging=st.sampled_from(["zip", "zip", "folder"] if prop == "C03" else ["zip"]), tgt=st.sampled_from(["bytesio", "path", "same"]),
              first=st.booleans())
        def kept_cycle(self, which, packaging, tgt, first):
            """keep wrappers, save (no reopen), edit through the kept wrappers only, save again"""
            r = self.r
            if r is None or r.dead:
                return
            if first or not r.kept:
                self.go({"op": "keep"})
            self.go({"op": "save", "packaging": packaging, "target": tgt, "reopen": False, "pretty": False})
            for w in which:
                self.go({"op": "edit_kept", "which": w})
            self.go({"op": "save", "packaging": packaging, "target": tgt, "reopen": False, "pretty": False})

        if prop == "C04":
            @rule(c=st.integers(0, 3), between=st.sampled_from(["add_file", "add_file", "del_part", "paragraph"]))
            def template_twice(self, c, between):
                """a template path used, rewritten with other content, and used again"""
                r = self.r
                if r is None or r.dead:
                    return
                self.go({"op": "retemplate"})
                if between == "add_file":
                    self.go({"op": "add_file", "c": c, "path": False, "frame": True})
                elif between == "del_part":
                    self.go({"op": "del_part", "i": c, "pick": "any"})
                else:
                    self.go({"op": "paragraph"})
                self.go({"op": "retemplate"})
                self.go({"op": "save", "packaging": "zip", "target": "bytesio", "reopen": False, "pretty": False})

        @rule(same=st.booleans())
        def generator(self, same):
            self.go({"op": "generator", "same": same})

        @rule(which=st.sampled_from(["para", "body", "style", "meta"]))
        def edit_kept(self, which):
            if self.r is not None and not self.r.dead and self.r.kept:
                self.go({"op": "edit_kept", "which": which})

        if prop == "C04":
            @rule(c=st.integers(0, 3), path=st.booleans(), again=st.sampled_from(["merge", "merge", "add_file", "both"]), reopen=st.booleans())
            def readd_after_delete(self, c, path, again, reopen):
                """a picture is added, deleted, and the same name comes back (merged styles referencing it, or the same file
                added again), then the package is saved: four steps that seldom line up by chance"""
                r = self.r
                if r is None or r.dead:
                    return
                self.go({"op": "add_file", "c": c, "path": path, "frame": False})
                self.go({"op": "del_part", "i": 0, "pick": "last-added"})
                if again in ("merge", "both"):
                    self.go({"op": "merge_styles", "i": {0: "synth:0", 1: "synth:1", 2: "synth:2", 3: "synth:3"}[c % 4]})
                if again in ("add_file", "both"):
                    self.go({"op": "add_file", "c": c, "path": path, "frame": False})
                self.go({"op": "save", "packaging": "zip", "target": "bytesio", "reopen": reopen, "pretty": False})

        @rule(pre=st.sampled_from(["del_part", "del_part", "add_file", "paragraph", "none"]), i=st.integers(0, 9), c=st.integers(0, 3),
              post=st.sampled_from(["zip-bytesio", "zip-path", "same", "folder"]))
        def inplace_cycle(self, pre, i, c, post):
            """edit, save over the file/folder the document came from, reopen it, save again: four steps a uniform choice
            of rules seldom lines up (only meaningful for documents opened from the file system)"""
            r = self.r
            if r is None or r.dead or not r.origin:
                return
            if pre == "del_part":
                self.go({"op": "del_part", "i": i, "pick": "any"})
            elif pre == "add_file":
                self.go({"op": "add_file", "c": c, "path": False, "frame": False})
            elif pre == "paragraph":
                self.go({"op": "paragraph"})
            self.go({"op": "save", "packaging": r.origin[0], "target": "same", "reopen": True, "pretty": False})
            if r.dead:
                return
            if post == "zip-bytesio":
                self.go({"op": "save", "packaging": "zip", "target": "bytesio", "reopen": True, "pretty": False})
            elif post == "zip-path":
                self.go({"op": "save", "packaging": "zip", "target": "path", "reopen": False, "pretty": False})
            elif post == "same":
                self.go({"op": "save", "packaging": "zip", "target": "same", "reopen": True, "pretty": False})
            elif prop == "C03":
                self.go({"op": "save", "packaging": "folder", "target": "path", "reopen": True, "pretty": False})

        def teardown(self):
            r = self.r
            if r is None:
                return
            try:
                if not r.dead and r.saves == 0:
                    r.apply({"op": "save", "packaging": "zip", "target": "bytesio", "reopen": True})
            finally:
                r.finish()
            for lab in r.labels:
                ctx.count("history:" + lab)
            ctx.count("histories")
            if prop == "C03":
                nt = "lazy-unread-edited-save" in r.labels or any(x.startswith("set_part-xml") for x in r.labels)
            else:
                nt = bool(r.labels & {"add_file-same-content-twice", "del_part", "merge_styles", "clone"})
            if nt and not r.dead:
                ctx.nontrivial(r.case())
                if len(ctx.samples) < 3:
                    ctx.sample(r.case())

    return DocMachine


def run_doc_history(source, ops, prop, ctx):
    r = DocRunner(source, ctx, prop, tag="replay")
    try:
        for op in ops:
            r.apply(op)
    finally:
        r.finish()
    return r
