"""Common runner: sharding, seeds, rounds, evidence, replay files, known findings.

No odfdo import here.  A property module (props/cNN.py) provides

    ID, RULE, ASSUMPTIONS
    run_shard(ctx)            -- generate + judge; raise/record Violation
    replay(case, ctx)         -- re-execute one stored case (raises Violation)

Exit codes of a run: 0 = held on everything explored, 1 = violation(s) (one
"VIOLATION property=<id> replay=<path>" line each), 2 = harness error.
"""

from __future__ import annotations

import hashlib
import json
import multiprocessing as mp
import os
import re
import sys
import time
import traceback
from pathlib import Path

ROOT = Path(__file__).resolve().parent.parent
KNOWN_FILE = ROOT / "known_findings.json"
MAX_ROUNDS = 6
MAX_SAMPLES = 5


class Violation(Exception):
    """An oracle disagreement.  signature = root-cause bucket (tuple of str)."""

    def __init__(self, signature, message, case=None):
        super().__init__(f"{'/'.join(map(str, signature))}: {message}")
        self.signature = tuple(str(s) for s in signature)
        self.message = str(message)
        self.case = case


class HarnessError(Exception):
    pass


class Abandon(Exception):
    """Raised instead of a Violation whose signature was already reported in
    this run: the current case is given up (its state may have diverged)."""


def jsonable(obj):
    """Best-effort conversion of a case to plain JSON (tagged for odd types)."""
    import datetime as _dt
    from decimal import Decimal

    if obj is None or isinstance(obj, (bool, int, str)):
        return obj
    if isinstance(obj, float):
        return obj if obj == obj and abs(obj) != float("inf") else {"$float": repr(obj)}
    if isinstance(obj, Decimal):
        return {"$decimal": str(obj)}
    if isinstance(obj, _dt.datetime):
        return {"$datetime": obj.isoformat()}
    if isinstance(obj, _dt.date):
        return {"$date": obj.isoformat()}
    if isinstance(obj, _dt.timedelta):
        return {"$timedelta": [obj.days, obj.seconds, obj.microseconds]}
    if isinstance(obj, bytes):
        return {"$bytes": obj.hex()}
    if isinstance(obj, dict):
        return {str(k): jsonable(v) for k, v in obj.items()}
    if isinstance(obj, tuple):
        return {"$tuple": [jsonable(v) for v in obj]}
    if isinstance(obj, (list, set, frozenset)):
        return [jsonable(v) for v in obj]
    return {"$repr": repr(obj)}


def unjson(obj):
    import datetime as _dt
    from decimal import Decimal

    if isinstance(obj, list):
        return [unjson(v) for v in obj]
    if isinstance(obj, dict):
        if len(obj) == 1:
            (k, v), = obj.items()
            if k == "$float":
                return float(v)
            if k == "$decimal":
                return Decimal(v)
            if k == "$datetime":
                return _dt.datetime.fromisoformat(v)
            if k == "$date":
                return _dt.date.fromisoformat(v)
            if k == "$timedelta":
                return _dt.timedelta(days=v[0], seconds=v[1], microseconds=v[2])
            if k == "$bytes":
                return bytes.fromhex(v)
            if k == "$tuple":
                return tuple(unjson(x) for x in v)
            if k == "$repr":
                return v
        return {k: unjson(v) for k, v in obj.items()}
    return obj


def case_hash(obj) -> int:
    data = json.dumps(jsonable(obj), sort_keys=True, ensure_ascii=True).encode()
    return int.from_bytes(hashlib.blake2b(data, digest_size=8).digest(), "big")


def load_known(prop_id):
    if not KNOWN_FILE.exists():
        return []
    data = json.loads(KNOWN_FILE.read_text())
    return [e for e in data.get("findings", []) if e.get("property") == prop_id]


class Ctx:
    """Per-shard collector handed to the property module."""

    def __init__(self, prop_id, tier, seed, shard, nshards, replaying=False):
        self.prop_id = prop_id
        self.tier = tier
        self.seed = seed
        self.shard = shard
        self.nshards = nshards
        self.replaying = replaying
        self.evaluations = 0
        self.classes = {}
        self.nt = set()
        self.samples = []
        self.failures = []  # list of dicts
        self.excluded_run = set()  # signatures found earlier in this run
        self.excluded_run_hits = 0
        self.excluded_known = {}
        self.rounds = 0
        self.engine = set()
        self.extra = {}
        self._known = {
            tuple(e["signature"]): e for e in load_known(prop_id) if e.get("status") == "known"
        }

    # ---- scaling helpers -------------------------------------------------
    @property
    def thorough(self):
        return self.tier == "thorough"

    def budget(self, quick, thorough):
        """Total budget across shards -> this shard's share (at least 1)."""
        total = thorough if self.thorough else quick
        scale = float(os.environ.get("VERIF_SCALE", "1"))
        return max(1, int(total * scale) // self.nshards)

    def hseed(self, salt=0):
        return (self.seed * 1_000_003 + self.shard * 7919 + salt * 104729) & 0xFFFFFFFF

    # ---- counters --------------------------------------------------------
    def ev(self, n=1):
        self.evaluations += n

    def count(self, label, n=1):
        self.classes[label] = self.classes.get(label, 0) + n

    def nontrivial(self, key):
        self.nt.add(case_hash(key))

    _sample_calls = 0

    def maybe_sample(self, obj, every=500):
        """keep the first case seen and then one case every `every` calls (up to MAX_SAMPLES per shard)"""
        self._sample_calls += 1
        if self._sample_calls == 1 or self._sample_calls % max(1, every // 8) == 0:
            self.sample(obj)

    def sample(self, obj, force=False):
        if len(self.samples) < MAX_SAMPLES or force:
            self.samples.append(jsonable(obj))

    # ---- known findings / exclusion --------------------------------------
    def known(self, sig):
        """True when `sig` names a finding recorded as known: the caller then
        skips that single oracle clause for the case at hand."""
        sig = tuple(str(s) for s in sig)
        if sig in self._known:
            self.excluded_known[sig] = self.excluded_known.get(sig, 0) + 1
            return True
        return False

    def check(self, cond, sig, message, case=None):
        """Oracle clause: raise Violation unless cond (or sig already reported)."""
        if cond:
            return
        self.fail(sig, message, case)

    def fail(self, sig, message, case=None):
        sig = tuple(str(s) for s in sig)
        if sig in self.excluded_run:
            self.excluded_run_hits += 1
            raise Abandon()
        if callable(case):
            case = case()
        raise Violation(sig, message, case)

    def guard(self, sig, case=None):
        """Context manager: any exception from the code under test inside the
        block is a violation of `sig + (ExceptionType,)`."""
        return _Guard(self, sig, case)

    # ---- drivers ---------------------------------------------------------
    def rounds_loop(self, run_once):
        """Call run_once(round_no) until it passes or MAX_ROUNDS distinct
        signatures were collected.  run_once raises Violation on failure."""
        for rnd in range(MAX_ROUNDS):
            self.rounds = max(self.rounds, rnd + 1)
            try:
                run_once(rnd)
                return
            except Violation as v:
                self.record(v)
            except BaseException as e:  # hypothesis wraps nothing: re-raise odd ones
                v = _find_violation(e)
                if v is None:
                    raise
                self.record(v)

    def record(self, v: Violation):
        if v.signature in self.excluded_run:
            return
        self.excluded_run.add(v.signature)
        self.failures.append(
            {"signature": list(v.signature), "message": v.message, "case": jsonable(v.case)}
        )

    def run_given(self, make_test, examples, salt=0, phases=None):
        """make_test() -> a function decorated with @given(...).  Applies seed
        and settings, runs it in rounds."""
        from hypothesis import HealthCheck, Phase, seed, settings

        self.engine.add("hypothesis-given")

        def once(rnd):
            ph = phases
            if ph is None:
                ph = [Phase.explicit, Phase.generate, Phase.target]
                if not (self.tier == "quick" and rnd > 0):
                    ph.append(Phase.shrink)
            st = settings(
                max_examples=max(1, examples if rnd == 0 else max(1, examples // 2)),
                database=None,
                deadline=None,
                report_multiple_bugs=False,
                derandomize=False,
                suppress_health_check=[HealthCheck.too_slow, HealthCheck.data_too_large],
                phases=ph,
                print_blob=False,
            )
            fn = make_test()
            fn = seed(self.hseed(salt + 31 * rnd))(st(fn))
            fn()

        self.rounds_loop(once)

    def run_machine(self, machine_cls, examples, steps, salt=0, replay=None):
        """Stateful search.  Hypothesis' own shrinker is not used for machines
        (it may spend its 5-minute cap per failure): a failing history is
        minimised by bounded delta debugging over its concrete op list through
        `replay(case, ctx)` (the same function --replay uses)."""
        from hypothesis import HealthCheck, Phase, seed, settings
        from hypothesis.stateful import run_state_machine_as_test

        self.engine.add("hypothesis-stateful")

        def once(rnd):
            st = settings(
                max_examples=max(1, examples if rnd == 0 else max(1, examples // 2)),
                stateful_step_count=steps,
                database=None,
                deadline=None,
                report_multiple_bugs=False,
                suppress_health_check=[HealthCheck.too_slow, HealthCheck.data_too_large,
                                       HealthCheck.filter_too_much],
                phases=[Phase.explicit, Phase.generate, Phase.target],
                print_blob=False,
            )
            try:
                run_state_machine_as_test(seed(self.hseed(salt + 31 * rnd))(machine_cls), settings=st)
            except BaseException as e:
                v = e if isinstance(e, Violation) else _find_violation(e)
                if v is None or replay is None:
                    raise
                raise ddmin(v, replay, self) from None

        self.rounds_loop(once)

    def result(self):
        return {
            "shard": self.shard,
            "evaluations": self.evaluations,
            "classes": self.classes,
            "nt": list(self.nt),
            "samples": self.samples,
            "failures": self.failures,
            "excluded_run_hits": self.excluded_run_hits,
            "excluded_known": {"/".join(k): v for k, v in self.excluded_known.items()},
            "rounds": self.rounds,
            "engine": sorted(self.engine),
            "extra": self.extra,
        }


def ddmin(v, replay, ctx, budget=220):
    """Shrink v.case["ops"] keeping the same failure signature; bounded."""
    case = v.case
    if not isinstance(case, dict) or not isinstance(case.get("ops"), list):
        return v
    best = v
    tries = 0

    def fails(ops):
        nonlocal tries
        tries += 1
        c2 = dict(case, ops=ops)
        sub = Ctx(ctx.prop_id, ctx.tier, ctx.seed, 0, 1, replaying=True)
        try:
            replay(jsonable_roundtrip(c2), sub)
        except Violation as w:
            if w.signature == v.signature:
                return w
        except Exception:
            return None
        return None

    ops = list(case["ops"])
    w0 = fails(ops)
    if w0 is None:
        return v  # not reproducible through replay: keep the original report
    best = w0
    n = 2
    while len(ops) >= 1 and tries < budget:
        chunk = max(1, len(ops) // n)
        removed = False
        i = 0
        while i < len(ops) and tries < budget:
            cand = ops[:i] + ops[i + chunk:]
            w = fails(cand)
            if w is not None:
                ops, best, removed = cand, w, True
            else:
                i += chunk
        if chunk == 1 and not removed:
            break
        if not removed:
            n = min(len(ops), n * 2) if n < len(ops) else len(ops)
        if chunk == 1 and removed:
            continue
    return best


def jsonable_roundtrip(case):
    return unjson(json.loads(json.dumps(jsonable(case))))


class _Guard:
    def __init__(self, ctx, sig, case):
        self.ctx, self.sig, self.case = ctx, tuple(sig), case

    def __enter__(self):
        return self

    def __exit__(self, et, ev, tb):
        if et is None or issubclass(et, (Violation, Abandon)):
            return False
        if not issubclass(et, Exception):
            return False
        if et.__module__.startswith("hypothesis"):
            return False
        frames = traceback.extract_tb(tb)
        where = ""
        for fr in reversed(frames):
            if "/odfdo/" in fr.filename:
                where = f"{Path(fr.filename).name}:{fr.name}"
                break
        msg = f"unexpected {et.__name__}: {ev} at {where}"
        self.ctx.fail(self.sig + (et.__name__,), msg, self.case)
        return True


def _find_violation(e):
    seen = set()
    while e is not None and id(e) not in seen:
        seen.add(id(e))
        if isinstance(e, Violation):
            return e
        subs = getattr(e, "exceptions", None)
        if subs:
            for s in subs:
                v = _find_violation(s)
                if v is not None:
                    return v
        e = e.__cause__ or e.__context__
    return None


# --------------------------------------------------------------------------
def _shard_entry(args):
    mod_name, prop_id, tier, seed, shard, nshards = args
    ctx = Ctx(prop_id, tier, seed, shard, nshards)
    try:
        import importlib

        mod = importlib.import_module(mod_name)
        mod.run_shard(ctx)
        res = ctx.result()
        res["error"] = None
    except Violation as v:  # a property module may let one escape
        ctx.record(v)
        res = ctx.result()
        res["error"] = None
    except BaseException as e:
        res = ctx.result()
        res["error"] = "".join(traceback.format_exception(type(e), e, e.__traceback__))[-6000:]
    return res


def slug(sig):
    return re.sub(r"[^A-Za-z0-9_.-]+", "_", "-".join(sig))[:120]


def write_replay(prop_id, failure):
    d = ROOT / "replays" / prop_id
    d.mkdir(parents=True, exist_ok=True)
    h = "%016x" % case_hash(failure["case"])
    p = d / f"{slug(failure['signature'])}-{h[:8]}.json"
    p.write_text(json.dumps({"property": prop_id, **failure}, indent=1, ensure_ascii=False))
    return p


def run_property(mod_name, prop_id, tier, seed, nshards=None):
    import importlib

    t0 = time.time()
    mod = importlib.import_module(mod_name)
    nshards = nshards or int(os.environ.get("VERIF_SHARDS", "16"))
    nshards = getattr(mod, "SHARDS", {}).get(tier, nshards) if hasattr(mod, "SHARDS") else nshards
    known = load_known(prop_id)

    # 1. regression replays (committed minimal cases of fixed / earlier findings)
    regress_fail = []
    regress_n = 0
    rdir = ROOT / "regress" / prop_id
    if rdir.is_dir():
        for f in sorted(rdir.glob("*.json")):
            regress_n += 1
            data = json.loads(f.read_text())
            ctx = Ctx(prop_id, tier, seed, 0, 1, replaying=True)
            try:
                mod.replay(unjson(data["case"]), ctx)
            except Violation as v:
                sig = tuple(data.get("signature") or v.signature)
                if not any(tuple(k["signature"]) == sig and k.get("status") == "known" for k in known):
                    regress_fail.append((f, v))

    # 2. generated search, sharded
    args = [(mod_name, prop_id, tier, seed, i, nshards) for i in range(nshards)]
    if nshards == 1:
        results = [_shard_entry(args[0])]
    else:
        with mp.get_context("fork").Pool(min(nshards, os.cpu_count() or 1)) as pool:
            results = pool.map(_shard_entry, args, chunksize=1)

    errors = [r["error"] for r in results if r["error"]]
    evaluations = sum(r["evaluations"] for r in results)
    classes = {}
    nt = set()
    samples = []
    failures = {}
    excl_known = {}
    engines = set()
    extra = {}
    for r in results:
        for k, v in r["classes"].items():
            classes[k] = classes.get(k, 0) + v
        nt.update(r["nt"])
        for s in r["samples"][:2]:
            if len(samples) < MAX_SAMPLES:
                samples.append(s)
        for f in r["failures"]:
            key = tuple(f["signature"])
            old = failures.get(key)
            if old is None or len(json.dumps(f["case"])) < len(json.dumps(old["case"])):
                failures[key] = f
        for k, v in r["excluded_known"].items():
            excl_known[k] = excl_known.get(k, 0) + v
        engines.update(r["engine"])
        for k, v in r["extra"].items():
            if isinstance(v, (int, float)) and not isinstance(v, bool):
                extra[k] = extra.get(k, 0) + v
            else:
                extra.setdefault(k, v)

    wall = time.time() - t0
    lines = []
    for f, v in regress_fail:
        lines.append(f"VIOLATION property={prop_id} replay={f.relative_to(ROOT)}")
    for key, f in sorted(failures.items()):
        p = write_replay(prop_id, f)
        lines.append(f"VIOLATION property={prop_id} replay={p.relative_to(ROOT)}")
        print(f"  [{'/'.join(key)}] {f['message'][:600]}", file=sys.stderr)
    for k in known:
        if k.get("status") == "known":
            print(f"KNOWN-FINDING: property={prop_id} {k['what']}")

    coverage = {
        "evaluations": int(evaluations),
        "distinct_nontrivial": len(nt),
        "rule": getattr(mod, "RULE", ""),
        "samples": samples,
        "classes": dict(sorted(classes.items())),
        "exhaustive": bool(extra.pop("exhaustive", False)),
        "excluded_known": excl_known,
        "regression_replays": regress_n,
        "rounds": max([r["rounds"] for r in results] + [0]),
        "engine": sorted(engines),
        "shards": nshards,
    }
    coverage.update(extra)
    evidence = {
        "property_id": prop_id,
        "tier": tier,
        "seed": int(seed),
        "level": "exploration",
        "coverage": coverage,
        "assumptions": list(getattr(mod, "ASSUMPTIONS", [])),
        "wall_s": round(wall, 2),
        "violations": len(lines),
    }
    if errors:
        evidence["coverage"]["harness_errors"] = len(errors)
    edir = ROOT / "evidence"
    edir.mkdir(exist_ok=True)
    (edir / f"{prop_id}.json").write_text(json.dumps(evidence, indent=1, ensure_ascii=False) + "\n")

    for ln in lines:
        print(ln)
    print(
        f"{prop_id} {tier} seed={seed}: evaluations={evaluations} distinct_nontrivial={len(nt)} "
        f"violations={len(lines)} wall={wall:.1f}s",
        file=sys.stderr,
    )
    if errors:
        print("HARNESS ERROR\n" + errors[0], file=sys.stderr)
        return 2 if not lines else 1
    return 1 if lines else 0


def run_replay(mod_name, prop_id, path):
    import importlib

    mod = importlib.import_module(mod_name)
    data = json.loads(Path(path).read_text())
    ctx = Ctx(prop_id, "quick", 0, 0, 1, replaying=True)
    try:
        mod.replay(unjson(data["case"]), ctx)
    except Violation as v:
        print(f"  [{'/'.join(v.signature)}] {v.message[:1000]}", file=sys.stderr)
        print(f"VIOLATION property={prop_id} replay={path}")
        return 1
    print(f"replay {path}: no violation", file=sys.stderr)
    return 0
