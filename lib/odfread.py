"""Independent readers: lxml + stdlib only, never imports odfdo."""

from __future__ import annotations

import io
import os
import re
import zipfile
from datetime import datetime, timedelta
from decimal import Decimal

from lxml import etree

NS = {
    "office": "urn:oasis:names:tc:opendocument:xmlns:office:1.0",
    "table": "urn:oasis:names:tc:opendocument:xmlns:table:1.0",
    "text": "urn:oasis:names:tc:opendocument:xmlns:text:1.0",
    "style": "urn:oasis:names:tc:opendocument:xmlns:style:1.0",
    "draw": "urn:oasis:names:tc:opendocument:xmlns:drawing:1.0",
    "manifest": "urn:oasis:names:tc:opendocument:xmlns:manifest:1.0",
    "number": "urn:oasis:names:tc:opendocument:xmlns:datastyle:1.0",
    "meta": "urn:oasis:names:tc:opendocument:xmlns:meta:1.0",
    "dc": "http://purl.org/dc/elements/1.1/",
    "xlink": "http://www.w3.org/1999/xlink",
    "svg": "urn:oasis:names:tc:opendocument:xmlns:svg-compatible:1.0",
    "fo": "urn:oasis:names:tc:opendocument:xmlns:xsl-fo-compatible:1.0",
    "presentation": "urn:oasis:names:tc:opendocument:xmlns:presentation:1.0",
}


def q(name: str) -> str:
    p, l = name.split(":")
    return "{%s}%s" % (NS[p], l)


T_TABLE = q("table:table")
T_ROW = q("table:table-row")
T_CELL = q("table:table-cell")
T_COVERED = q("table:covered-table-cell")
T_COL = q("table:table-column")
A_ROWREP = q("table:number-rows-repeated")
A_COLREP = q("table:number-columns-repeated")
ROW_CONTAINERS = {q("table:table-rows"), q("table:table-header-rows")}
ROW_GROUP = q("table:table-row-group")
COL_CONTAINERS = {q("table:table-columns"), q("table:table-header-columns")}
COL_GROUP = q("table:table-column-group")


def parse(xml):
    if isinstance(xml, str):
        xml = xml.encode("utf-8")
    if isinstance(xml, (bytes, bytearray)):
        return etree.fromstring(bytes(xml))
    return xml


def wrap_ns(fragment: str) -> bytes:
    """Serialised odfdo fragments have no namespace declarations: wrap them."""
    decl = " ".join(f'xmlns:{p}="{u}"' for p, u in ALL_NS.items())
    return f"<wrap {decl}>{fragment}</wrap>".encode("utf-8")


ALL_NS = dict(NS)
ALL_NS.update({
    "calcext": "urn:org:documentfoundation:names:experimental:calc:xmlns:calcext:1.0",
    "loext": "urn:org:documentfoundation:names:experimental:office:xmlns:loext:1.0",
    "of": "urn:oasis:names:tc:opendocument:xmlns:of:1.2",
    "chart": "urn:oasis:names:tc:opendocument:xmlns:chart:1.0",
    "config": "urn:oasis:names:tc:opendocument:xmlns:config:1.0",
    "form": "urn:oasis:names:tc:opendocument:xmlns:form:1.0",
    "script": "urn:oasis:names:tc:opendocument:xmlns:script:1.0",
    "math": "http://www.w3.org/1998/Math/MathML",
    "dr3d": "urn:oasis:names:tc:opendocument:xmlns:dr3d:1.0",
    "anim": "urn:oasis:names:tc:opendocument:xmlns:animation:1.0",
    "smil": "urn:oasis:names:tc:opendocument:xmlns:smil-compatible:1.0",
    "field": "urn:openoffice:names:experimental:ooo-ms-interop:xmlns:field:1.0",
    "xforms": "http://www.w3.org/2002/xforms",
    "xsd": "http://www.w3.org/2001/XMLSchema",
    "xsi": "http://www.w3.org/2001/XMLSchema-instance",
    "xhtml": "http://www.w3.org/1999/xhtml",
    "grddl": "http://www.w3.org/2003/g/data-view#",
    "ooo": "http://openoffice.org/2004/office",
    "ooow": "http://openoffice.org/2004/writer",
    "oooc": "http://openoffice.org/2004/calc",
    "dom": "http://www.w3.org/2001/xml-events",
    "rpt": "http://openoffice.org/2005/report",
    "tableooo": "http://openoffice.org/2009/table",
    "drawooo": "http://openoffice.org/2010/draw",
    "officeooo": "http://openoffice.org/2009/office",
    "formx": "urn:openoffice:names:experimental:ooxml-odf-interop:xmlns:form:1.0",
    "css3t": "http://www.w3.org/TR/css3-text/",
    "db": "urn:oasis:names:tc:opendocument:xmlns:database:1.0",
})


def parse_fragment(fragment: str):
    """Parse a namespace-less serialisation produced by Element.serialize()."""
    root = etree.fromstring(wrap_ns(fragment))
    return root[0]


# ---------------------------------------------------------------- tables
_DUR = re.compile(r"(-?)P(?:([0-9]+)D)?(?:T(?:([0-9]+)H)?(?:([0-9]+)M)?(?:([0-9]+)(?:\.([0-9]+))?S)?)?\Z")


class Opaque:
    """A string cell without office:string-value: text lives in paragraphs."""

    def __init__(self, empty):
        self.empty = empty

    def __repr__(self):
        return f"<opaque-text empty={self.empty}>"


def _rep(el, attr):
    v = el.get(attr)
    if v is None:
        return 1
    return int(v)


def cell_value(cell):
    vt = cell.get(q("office:value-type"))
    if vt is None:
        return None, None
    if vt == "boolean":
        return cell.get(q("office:boolean-value")) == "true", vt
    if vt in ("float", "percentage", "currency"):
        d = Decimal(cell.get(q("office:value")))
        return (int(d) if d == int(d) else d), vt
    if vt == "date":
        s = cell.get(q("office:date-value"))
        return datetime.fromisoformat(s[:-1] + "+00:00" if s.endswith("Z") else s), vt
    if vt == "time":
        m = _DUR.match(cell.get(q("office:time-value")))
        sign = -1 if m.group(1) else 1
        d, h, mi, s = (int(g or 0) for g in m.group(2, 3, 4, 5))
        us = int((m.group(6) or "0").ljust(6, "0")[:6])
        return sign * timedelta(days=d, hours=h, minutes=mi, seconds=s, microseconds=us), vt
    if vt == "string":
        s = cell.get(q("office:string-value"))
        if s is not None:
            return s, vt
        txt = "".join(cell.itertext())
        return Opaque(not txt), vt
    return Opaque(False), vt


def _iter_rows(table):
    for ch in table:
        if ch.tag == T_ROW:
            yield ch
        elif ch.tag in ROW_CONTAINERS:
            for r in ch:
                if r.tag == T_ROW:
                    yield r


def _iter_cols(table):
    for ch in table:
        if ch.tag == T_COL:
            yield ch
        elif ch.tag in COL_CONTAINERS:
            for c in ch:
                if c.tag == T_COL:
                    yield c


def uses_groups(table):
    return any(ch.tag in (ROW_GROUP, COL_GROUP) for ch in table)


def table_dims(table):
    """(ncols, nrows, widest row) from repeat sums, nothing materialised."""
    table = parse(table)
    ncols = sum(_rep(c, A_COLREP) for c in _iter_cols(table))
    nrows = 0
    widest = 0
    for r in _iter_rows(table):
        nrows += _rep(r, A_ROWREP)
        w = sum(_rep(c, A_COLREP) for c in r if c.tag in (T_CELL, T_COVERED))
        widest = max(widest, w)
    return ncols, nrows, widest


def expand_table(table):
    """-> dict(ncols, col_styles, rows=[[(value, type, style, covered)]], row_styles)
    Nested tables inside cells are not descended into."""
    table = parse(table)
    cols = []
    for c in _iter_cols(table):
        cols.extend([c.get(q("table:style-name"))] * _rep(c, A_COLREP))
    rows = []
    for r in _iter_rows(table):
        cells = []
        for c in r:
            if c.tag not in (T_CELL, T_COVERED):
                continue
            v, vt = cell_value(c)
            item = (v, vt, c.get(q("table:style-name")), c.tag == T_COVERED)
            cells.extend([item] * _rep(c, A_COLREP))
        for _ in range(_rep(r, A_ROWREP)):
            rows.append(list(cells))
    return {"ncols": len(cols), "col_styles": cols, "rows": rows}


def expand_row(row):
    """-> ([(value, type, style, covered)] with cell repeats expanded, row repeat count) for one table:table-row element"""
    cells = []
    for c in row:
        if c.tag not in (T_CELL, T_COVERED):
            continue
        v, vt = cell_value(c)
        cells.extend([(v, vt, c.get(q("table:style-name")), c.tag == T_COVERED)] * _rep(c, A_COLREP))
    return cells, _rep(row, A_ROWREP)


def lint_table(table):
    """Structural rules consumers rely on.  Returns list of (code, message)."""
    table = parse(table)
    out = []
    for el in table.iter():
        if el is not table and el.tag == T_TABLE:
            continue
        for attr in (A_ROWREP, A_COLREP):
            v = el.get(attr)
            if v is not None:
                if not re.fullmatch(r"[0-9]+", v) or int(v) < 2:
                    out.append(("repeat-attr", f"{etree.QName(el).localname} {etree.QName(attr).localname}={v!r}"))
    seen_row = False
    for ch in table:
        if ch.tag == T_ROW or ch.tag in ROW_CONTAINERS or ch.tag == ROW_GROUP:
            seen_row = True
        elif ch.tag == T_COL or ch.tag in COL_CONTAINERS or ch.tag == COL_GROUP:
            if seen_row:
                out.append(("column-after-row", "a column declaration follows a row"))
    ex = expand_table(table)
    for r in _iter_rows(table):
        for c in r:
            if c.tag not in (T_CELL, T_COVERED):
                out.append(("row-child", f"row contains {etree.QName(c).localname}"))
    for i, row in enumerate(ex["rows"]):
        if len(row) > ex["ncols"]:
            out.append(("row-wider-than-columns", f"row {i} has {len(row)} cells, {ex['ncols']} columns declared"))
            break
    return out, ex


# ---------------------------------------------------------------- text
T_P = q("text:p")
T_H = q("text:h")
T_S = q("text:s")
T_TAB = q("text:tab")
T_LB = q("text:line-break")
T_NOTE = q("text:note")
T_ANNOT = q("office:annotation")
T_ANNOT_END = q("office:annotation-end")
DRAW_NS = "{%s}" % NS["draw"]

_S, _TAB, _LB = "\ue000", "\ue001", "\ue002"  # private-use sentinels for opaque tokens


def _collect(el, out, skip_containers, top=True):
    """Character data of el and descendants in document order with tokens."""
    if el.text:
        out.append(el.text)
    for ch in el:
        if not isinstance(ch.tag, str):
            pass
        elif ch.tag == T_S:
            c = ch.get(q("text:c"))
            out.append(_S * (int(c) if c else 1))
        elif ch.tag == T_TAB:
            out.append(_TAB)
        elif ch.tag == T_LB:
            out.append(_LB)
        elif skip_containers and (ch.tag in (T_NOTE, T_ANNOT, T_P, T_H) or ch.tag.startswith(DRAW_NS)):
            pass
        else:
            _collect(ch, out, skip_containers, False)
        if ch.tail:
            out.append(ch.tail)


def _ws_process(raw: str) -> str:
    raw = raw.replace("\t", " ").replace("\r", " ").replace("\n", " ")
    raw = re.sub(r" +", " ", raw)
    raw = raw.strip(" ")
    return raw.replace(_S, " ").replace(_TAB, "\t").replace(_LB, "\n")


def ws_text(p) -> str:
    """ODF 1.2 part 1 section 6.1.2 white-space processing of one paragraph."""
    out = []
    _collect(parse(p), out, False)
    return _ws_process("".join(out))


def plain_projection(p) -> str:
    """Readable text of one paragraph: own content only (notes, annotations,
    frames and nested paragraphs are separate units)."""
    out = []
    _collect(parse(p), out, True)
    return _ws_process("".join(out))


def raw_text(p) -> str:
    """Concatenation of the descendant text nodes, no white-space processing,
    white-space elements contribute nothing (the addressing regex APIs use)."""
    return "".join(parse(p).itertext())


def text_runs(el):
    """Ordered list of (owner_element, 'text'|'tail', string) for non-empty runs."""
    el = parse(el)
    out = []

    def walk(e, top):
        if e.text:
            out.append((e, "text", e.text))
        for ch in e:
            if isinstance(ch.tag, str):
                walk(ch, False)
            if ch.tail:
                out.append((ch, "tail", ch.tail))

    walk(el, True)
    return out


def skeleton(el):
    """Element tags in document order with sorted attributes (no text)."""
    el = parse(el)
    return [(e.tag, tuple(sorted(e.attrib.items()))) for e in el.iter() if isinstance(e.tag, str)]


def c14n(x) -> bytes:
    el = parse(x)
    if el.getparent() is not None:
        import copy

        el = copy.deepcopy(el)  # a root of its own: in-scope namespaces travel with it
        el.tail = None
        return etree.tostring(el, method="c14n2")
    # a whole document: comments and processing instructions around the root element belong to the infoset
    return etree.tostring(el.getroottree(), method="c14n2")


def paragraphs(root):
    root = parse(root)
    return [e for e in root.iter(T_P, T_H)]


# ---------------------------------------------------------------- packages
def read_zip(data):
    """-> (ordered infolist, {name: bytes})."""
    if isinstance(data, (bytes, bytearray)):
        data = io.BytesIO(data)
    with zipfile.ZipFile(data) as z:
        infos = z.infolist()
        return infos, {i.filename: z.read(i.filename) for i in infos}


def read_folder(path):
    out = {}
    for base, dirs, files in os.walk(path):
        for f in files:
            full = os.path.join(base, f)
            rel = os.path.relpath(full, path).replace(os.sep, "/")
            with open(full, "rb") as fh:
                out[rel] = fh.read()
        for d in dirs:
            full = os.path.join(base, d)
            if not os.listdir(full):
                out[os.path.relpath(full, path).replace(os.sep, "/") + "/"] = b""
    return out


def read_manifest(data: bytes):
    """-> list of (full-path, media-type) in document order."""
    root = etree.fromstring(data)
    out = []
    for e in root.iter(q("manifest:file-entry")):
        out.append((e.get(q("manifest:full-path")), e.get(q("manifest:media-type"))))
    return out
