"""Paragraph layouts and regex families shared by C09 and C16 (and C20 heading texts).

A layout is a list of pieces, each built through the public API so that every
text node is in ODF white-space normal form:
  {"k": "t", "text": ...}                 plain text (blanks, TAB, LF allowed)
  {"k": "span", "text": ..., "inner": [...]}   text:span, optionally nested pieces
  {"k": "link", "text": ...}              text:a
  {"k": "bm"} / {"k": "ref"}              empty bookmark / reference mark
  {"k": "note", "body": ...}              footnote
"""
from __future__ import annotations

import re

from hypothesis import strategies as st

WORDS = ["a", "b", "ab", "ba", "abc", "x", "aa", "b a", "a  b", " a", "b ", "a\tb", "a\nb", "é", "a b c", "  ", " ", "ab ab"]


def st_text(maxn=3):
    return st.lists(st.sampled_from(WORDS), min_size=1, max_size=maxn).map("".join)


CLEAN = ["a", "b", "ab", "ba", "abc", "x", "aa", "b a", "é", "a b c", "ab ab"]


def st_clean(maxn=2):
    """text whose raw form is already in white-space normal form (links and note
    bodies store their text as given)"""
    return st.lists(st.sampled_from(CLEAN), min_size=1, max_size=maxn).map("".join)


def st_piece(depth=1):
    base = [
        st.fixed_dictionaries({"k": st.just("t"), "text": st_text()}),
        st.fixed_dictionaries({"k": st.just("t"), "text": st_text()}),
        st.fixed_dictionaries({"k": st.just("link"), "text": st_clean(2)}),
        st.fixed_dictionaries({"k": st.just("bm")}),
        st.fixed_dictionaries({"k": st.just("ref")}),
        st.fixed_dictionaries({"k": st.just("note"), "body": st_clean(2)}),
    ]
    if depth > 0:
        base.append(st.fixed_dictionaries({"k": st.just("span"), "text": st_text(2),
                                           "inner": st.lists(st_piece(depth - 1), max_size=2)}))
        base.append(st.fixed_dictionaries({"k": st.just("span"), "text": st_text(2), "inner": st.just([])}))
    else:
        base.append(st.fixed_dictionaries({"k": st.just("span"), "text": st_text(2), "inner": st.just([])}))
    return st.one_of(*base)


def st_layout(minp=1, maxp=5):
    return st.lists(st_piece(1), min_size=minp, max_size=maxp)


class Counter:
    def __init__(self):
        self.n = 0

    def next(self, prefix):
        self.n += 1
        return f"{prefix}{self.n}"


def _append_pieces(target, pieces, cnt):
    from odfdo import Bookmark, Link, Note, ReferenceMark, Span

    for p in pieces:
        k = p["k"]
        if k == "t":
            target.append(p["text"])
        elif k == "span":
            s = Span(p["text"], style=cnt.next("L"))
            _append_pieces(s, p.get("inner", []), cnt)
            target.append(s)
        elif k == "link":
            target.append(Link(cnt.next("http://h/"), text=p["text"]))
        elif k == "bm":
            target.append(Bookmark(cnt.next("bm")))
        elif k == "ref":
            target.append(ReferenceMark(cnt.next("rm")))
        elif k == "note":
            n = cnt.next("n")
            target.append(Note("footnote", note_id=n, citation=str(cnt.n), body=p["body"]))


def build_paragraph(layout, kind="p"):
    from odfdo import Header, Paragraph

    e = Header(1, "") if kind == "h" else Paragraph("")
    _append_pieces(e, layout, Counter())
    return e


# ------------------------------------------------------------------ regex family
def text_nodes(el):
    """raw descendant text nodes of an lxml element, document order"""
    return [str(t) for t in el.xpath("descendant::text()")]


TEMPLATES = ["lit", "lit", "lit", "class", "word", "alt", "anchor-start", "anchor-end", "plus", "dot", "nomatch", "space"]


def st_pattern():
    return st.fixed_dictionaries({"t": st.sampled_from(TEMPLATES), "node": st.integers(0, 30), "i": st.integers(0, 30),
                                  "n": st.integers(1, 4), "j": st.integers(0, 30)})


def make_pattern(spec, nodes):
    """Concrete regex (never matching the empty string) from a spec and the
    current text nodes.  Returns None when no usable text exists."""
    nodes = [n for n in nodes if n]
    if not nodes:
        return None
    node = nodes[spec["node"] % len(nodes)]
    i = spec["i"] % len(node)
    sub = node[i:i + spec["n"]]
    t = spec["t"]
    if t == "lit":
        pat = re.escape(sub)
    elif t == "class":
        pat = "[" + re.escape(sub) + "]+"
    elif t == "word":
        pat = r"\w+"
    elif t == "alt":
        other = nodes[spec["j"] % len(nodes)]
        j = spec["j"] % len(other)
        pat = re.escape(sub) + "|" + re.escape(other[j:j + 2])
    elif t == "anchor-start":
        pat = "^" + re.escape(node[:spec["n"]])
    elif t == "anchor-end":
        pat = re.escape(node[-spec["n"]:]) + "$"
    elif t == "plus":
        pat = re.escape(sub[0]) + "+"
    elif t == "dot":
        pat = re.escape(sub[0]) + "."
    elif t == "space":
        pat = " +"
    else:
        pat = "zzz+q"
    try:
        c = re.compile(pat)
    except re.error:
        return None
    if c.search("") is not None or any(m.end() == m.start() for n in nodes for m in c.finditer(n)):
        return None
    return pat
