"""Reference model of an ODF table: an uncompressed list-of-lists grid.

No run-length encoding, no caches, no odfdo import.  A cell is a tuple
(value, style); the empty cell is (None, None).  Rows are ragged lists exactly
as long as the cells that were put in them (the documented semantics: writing
beyond the end pads with empty cells); every *table level* read pads a row with
empty cells up to the number of declared columns.
"""

from __future__ import annotations

from datetime import date, datetime
from decimal import Decimal

EMPTY = (None, None)


def read_value(v):
    """Documented read-back of a stored Python value."""
    if v is None or isinstance(v, (bool, str)):
        return v
    if isinstance(v, int):
        return v
    if isinstance(v, float):
        d = Decimal(str(v))
        return int(d) if d == int(d) else d
    if isinstance(v, Decimal):
        return int(v) if v == int(v) else v
    if isinstance(v, datetime):
        return v
    if isinstance(v, date):
        return datetime(v.year, v.month, v.day)
    return v


def same_value(a, b):
    if type(a) is bool or type(b) is bool:
        return type(a) is type(b) and a == b
    if a is None or b is None:
        return a is None and b is None
    if isinstance(a, str) or isinstance(b, str):
        return isinstance(a, str) and isinstance(b, str) and a == b
    return a == b


class Grid:
    def __init__(self, cols=None, rows=None):
        self.cols = list(cols or [])  # column styles
        self.rows = [list(r) for r in (rows or [])]

    def copy(self):
        return Grid(self.cols, self.rows)

    # ---- sizes -------------------------------------------------------------
    @property
    def width(self):
        return len(self.cols)

    @property
    def height(self):
        return len(self.rows)

    def _sync_width(self, row):
        if len(row) > len(self.cols):
            self.cols.extend([None] * (len(row) - len(self.cols)))

    # ---- row helpers (pure list functions) ---------------------------------
    @staticmethod
    def row_set(row, x, cell, rep=1):
        if x > len(row):
            row.extend([EMPTY] * (x - len(row)))
        row[x:x + rep] = [cell] * rep

    @staticmethod
    def row_insert(row, x, cell, rep=1):
        if x > len(row):
            row.extend([EMPTY] * (x - len(row)))
        row[x:x] = [cell] * rep

    @staticmethod
    def row_delete(row, x):
        if x < len(row):
            del row[x]

    @staticmethod
    def row_set_cells(row, cells, start=0):
        """cells: list of (cell, rep)."""
        x = start
        for cell, rep in cells:
            Grid.row_set(row, x, cell, rep)
            x += rep

    # ---- rows ---------------------------------------------------------------
    def _pad_rows(self, y):
        first = not self.rows and not self.cols
        while len(self.rows) < y:
            self.rows.append([])
        return first

    def _columns_on_first_row(self, row):
        # "columns are automatically created when the first row is inserted"
        if not self.cols:
            self.cols = [None] * max(1, len(row))

    def append_row(self, row, rep=1):
        self._columns_on_first_row(row)
        for _ in range(rep):
            self.rows.append(list(row))
        self._sync_width(row)

    def set_row(self, y, row, rep=1):
        if y >= len(self.rows):
            if y > len(self.rows):
                self._columns_on_first_row([])
                self._pad_rows(y)
            self.append_row(row, rep)
            return
        self.rows[y:y + rep] = [list(row) for _ in range(rep)]
        self._sync_width(row)

    def insert_row(self, y, row, rep=1):
        if y >= len(self.rows):
            self.set_row(y, row, rep)
            return
        self.rows[y:y] = [list(row) for _ in range(rep)]
        self._sync_width(row)

    def extend_rows(self, rows):
        """rows: list of (row, rep).  Raw append, then width synchronised."""
        for row, rep in rows:
            for _ in range(rep):
                self.rows.append(list(row))
        for row, _ in rows:
            self._sync_width(row)
        if rows and not self.cols:
            self.cols = [None]

    def delete_row(self, y):
        if y < len(self.rows):
            del self.rows[y]

    def get_row(self, y):
        return list(self.rows[y]) if y < len(self.rows) else []

    # ---- cells --------------------------------------------------------------
    def set_cell(self, x, y, cell, rep=1):
        if y >= len(self.rows):
            row = []
            self.row_set(row, x, cell, rep)
            self.set_row(y, row)
            return
        row = self.rows[y]
        self.row_set(row, x, cell, rep)
        self._sync_width(row)

    def insert_cell(self, x, y, cell, rep=1):
        if y >= len(self.rows):
            row = []
            self.row_insert(row, x, cell, rep)
            self.set_row(y, row)
            return
        row = self.rows[y]
        self.row_insert(row, x, cell, rep)
        self._sync_width(row)

    def append_cell(self, y, cell, rep=1):
        if y >= len(self.rows):
            self.set_row(y, [cell] * rep)
            return
        row = self.rows[y]
        row.extend([cell] * rep)
        self._sync_width(row)

    def delete_cell(self, x, y):
        if y < len(self.rows):
            self.row_delete(self.rows[y], x)

    def set_values(self, matrix, x, y, style=None):
        for i, vals in enumerate(matrix):
            if not vals:
                continue
            yy = y + i
            row = self.get_row(yy)
            self.row_set_cells(row, [((v, style), 1) for v in vals], x)
            self.set_row(yy, row)

    def set_cells(self, matrix, x, y):
        """matrix of (cell, rep)."""
        for i, cells in enumerate(matrix):
            if not cells:
                continue
            yy = y + i
            row = self.get_row(yy)
            self.row_set_cells(row, cells, x)
            self.set_row(yy, row)

    # ---- columns ------------------------------------------------------------
    def append_column(self, style=None, rep=1):
        self.cols.extend([style] * rep)

    def set_column(self, x, style=None, rep=1):
        if x > len(self.cols):
            self.cols.extend([None] * (x - len(self.cols)))
        self.cols[x:x + rep] = [style] * rep

    def insert_column(self, x, style=None, rep=1):
        if x >= len(self.cols):
            self.set_column(x, style, rep)
        else:
            self.cols[x:x] = [style] * rep
        for row in self.rows:
            if len(row) > x:
                row[x:x] = [EMPTY] * rep

    def delete_column(self, x):
        if x >= len(self.cols):
            return
        del self.cols[x]
        for row in self.rows:
            if len(row) > x:
                del row[x]

    def set_column_cells(self, x, cells):
        """cells: list of (cell, rep), one per row."""
        for y, (cell, rep) in enumerate(cells):
            row = self.rows[y]
            self.row_set(row, x, cell, rep)
            self._sync_width(row)

    def clear(self):
        self.cols = []
        self.rows = []

    # ---- reads ---------------------------------------------------------------
    def padded(self, y):
        row = self.rows[y]
        if len(row) >= len(self.cols):
            return list(row)
        return list(row) + [EMPTY] * (len(self.cols) - len(row))

    def cell(self, x, y):
        if y < len(self.rows) and x < len(self.rows[y]):
            return self.rows[y][x]
        return EMPTY

    def values(self):
        return [[read_value(c[0]) for c in self.padded(y)] for y in range(len(self.rows))]

    def area_values(self, x, y, z, t):
        """get_values(coord) semantics: rows y..t present in the table, each cut
        to columns x..min(z, width-1) and completed with None."""
        out = []
        x0 = 0 if x is None else x
        for yy in range(0 if y is None else y, len(self.rows) if t is None else min(t + 1, len(self.rows))):
            w = len(self.cols) if z is None else min(z + 1, len(self.cols))
            n = max(0, w - x0)
            row = self.rows[yy]
            hi = len(row) if z is None else z + 1
            vals = [read_value(c[0]) for c in row[x0:hi]]
            if len(vals) < n:
                vals += [None] * (n - len(vals))
            out.append(vals)
        return out
