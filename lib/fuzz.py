"""Coverage-guided tier: run an atheris (libFuzzer) campaign in a child process.

The property module exposes `fuzz_target(ctx) -> callable(str)` whose body is the
same oracle as the Hypothesis property.  libFuzzer never returns from Fuzz(), so
the campaign lives in its own process (lib/fuzz_runner.py); a Violation is
written to an artifact file and comes back to the shard as a normal failure.
"""
from __future__ import annotations

import json
import os
import shutil
import subprocess
import sys
from pathlib import Path

from .harness import ROOT, Violation, unjson


def run_campaign(ctx, mod_name, runs, seeds=(), modules=("odfdo",), max_len=64):
    scratch = ROOT / ".scratch" / f"fuzz-{ctx.prop_id}-{os.getpid()}-{ctx.shard}"
    shutil.rmtree(scratch, ignore_errors=True)
    corpus = scratch / "corpus"
    corpus.mkdir(parents=True)
    # empty corpus on even shards, small valid seeds on odd shards
    if ctx.shard % 2:
        for i, s in enumerate(seeds):
            (corpus / f"seed{i}").write_bytes(s.encode("utf-8"))
    art = scratch / "violation.json"
    stats = scratch / "stats.json"
    env = dict(os.environ, FUZZ_ARTIFACT=str(art), FUZZ_STATS=str(stats), FUZZ_MODULES=",".join(modules),
               FUZZ_TIER=ctx.tier, FUZZ_EXCLUDED=json.dumps([list(s) for s in ctx.excluded_run]))
    cmd = [sys.executable, str(ROOT / "lib" / "fuzz_runner.py"), mod_name, str(corpus),
           f"-runs={runs}", f"-seed={ctx.hseed(99) or 1}", f"-max_len={max_len}", "-print_final_stats=0",
           f"-artifact_prefix={scratch}/"]
    try:
        p = subprocess.run(cmd, env=env, capture_output=True, text=True, timeout=3600)
        ctx.engine.add("atheris")
        if stats.exists():
            st = json.loads(stats.read_text())
            ctx.ev(st.get("execs", 0))
            ctx.count("atheris-execs", st.get("execs", 0))
            ctx.count("atheris-nontrivial", st.get("nontrivial", 0))
            for h in st.get("nt", []):
                ctx.nt.add(h)
        if art.exists():
            f = json.loads(art.read_text())
            raise Violation(tuple(f["signature"]), f["message"], unjson(f["case"]))
        if p.returncode not in (0,):
            ctx.extra["atheris_note"] = f"runner exit {p.returncode}: {p.stderr[-300:]}"
    finally:
        shutil.rmtree(scratch, ignore_errors=True)
