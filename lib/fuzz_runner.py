"""Child process of lib/fuzz.py:  fuzz_runner.py <props module> <corpus dir> <libFuzzer flags>"""
import json
import os
import sys
from pathlib import Path

ROOT = Path(__file__).resolve().parent.parent
src = os.environ.get("ODFDO_SRC", "/repo/src")
sys.path[:0] = [src, str(ROOT), str(ROOT / ".deps")]

import atheris  # noqa: E402

mods = [m for m in os.environ.get("FUZZ_MODULES", "odfdo").split(",") if m]
with atheris.instrument_imports(include=mods):
    import odfdo  # noqa: F401
    import importlib
    for m in mods:
        importlib.import_module(m)

from lib.harness import Abandon, Ctx, Violation, jsonable  # noqa: E402

mod = importlib.import_module(sys.argv[1])
ctx = Ctx(mod.ID, os.environ.get("FUZZ_TIER", "thorough"), 0, 0, 1)
ctx.excluded_run = {tuple(s) for s in json.loads(os.environ.get("FUZZ_EXCLUDED", "[]"))}
target = mod.fuzz_target(ctx)
execs = 0


def dump_stats():
    Path(os.environ["FUZZ_STATS"]).write_text(json.dumps(
        {"execs": execs, "nontrivial": len(ctx.nt), "nt": list(ctx.nt)[:200000]}))


def one(data: bytes):
    global execs
    execs += 1
    try:
        s = data.decode("utf-8")
    except UnicodeDecodeError:
        s = data.decode("latin-1")
    try:
        target(s)
    except Abandon:
        pass
    except Violation as v:
        Path(os.environ["FUZZ_ARTIFACT"]).write_text(json.dumps(
            {"signature": list(v.signature), "message": v.message, "case": jsonable(v.case)}))
        dump_stats()
        os._exit(0)
    if execs % 20000 == 0:
        dump_stats()


import atexit  # noqa: E402
atexit.register(dump_stats)
atheris.Setup([sys.argv[0]] + sys.argv[2:], one)
try:
    atheris.Fuzz()
finally:
    dump_stats()
