"""C06 - typed values survive the trip through the document for every value of every type."""
from __future__ import annotations

import io
import re
from datetime import date, datetime, timedelta, timezone
from decimal import Decimal

from hypothesis import given, strategies as st

from lib import odfread
from lib.harness import Abandon

ID = "C06"
RULE = (
    "H: values per type with boundary-weighted sampling (bool; ints incl. 0, +-1, +-2^63, 10^30; finite floats with "
    "exponents and -0.0; Decimals with trailing zeros/exponents/tiny fractions; str incl. empty, blank-laden, XML-special, "
    "TAB/LF, and lexical forms of other types such as 'true', '1e5', '2024-01-31', 'PT1H'; dates 0001..9999; naive and aware "
    "datetimes with microseconds; whole-second timedeltas of either sign; None) x carriers {Cell(v), cell.value=, "
    "Cell.set_value, Row.set_value, Table.set_value, Table.set_values, VarSet, UserFieldDecl (+set_value), UserDefined, "
    "Meta.set_user_defined_metadata}. Oracle: read-back equal and of the corresponding type, directly, after "
    "Element.from_tag(serialize()), and after Document.save(BytesIO)+reload; the written attribute matches the ODF lexical "
    "space of its type and an independent lxml reader decodes the same value. Second family 'rows': lists of 1-7 typed values "
    "drawn so that neighbours are confusable (True/1/1.0/Decimal('1.00')/'1'/'true', False/0/-0.0/'', one instant in two zones, "
    "date vs midnight datetime) stored through Row.set_values (start 0 and >0, over empty and pre-filled rows), "
    "Table.set_values (with offset), set_row_values, set_column_values, append_row and Row(...)+set_cells; every position is "
    "read back through get_values / get_value / get_cells, an independent lxml expansion of the serialisation, and after "
    "save+reload. Third family 'overwrite': 2-4 confusable values written one after the other to the same place (Cell.set_value, "
    "cell.value=, Row/Table.set_value also inside a repeated run, set_values, set_row_values/set_column_values, VarSet, "
    "UserFieldDecl, user-defined metadata): the last one is read back with its type, no attribute of an earlier type is left, "
    "neighbours of the run keep the first value. Non-trivial = value in a corner class (rows/overwrite: some adjacent pair compares == across types); distinct by "
    "(label, repr(value))."
)
ASSUMPTIONS = [
    "numeric read-back: int if integral else Decimal (documented); a float f equals a read value r iff float(r) == f",
    "Date.decode returns a datetime at midnight (documented); user-defined metadata numbers read back as Decimal (documented)",
    "sub-second timedeltas, NaN/inf, CR and XML-forbidden control characters are outside the property",
    "lxml decodes attribute values per XML 1.0",
]

RE_DOUBLE = re.compile(r"[+-]?([0-9]+(\.[0-9]*)?|\.[0-9]+)([eE][+-]?[0-9]+)?\Z")
RE_DATE = re.compile(r"-?[0-9]{4,}-[0-9]{2}-[0-9]{2}\Z")
RE_DATETIME = re.compile(r"-?[0-9]{4,}-[0-9]{2}-[0-9]{2}T[0-9]{2}:[0-9]{2}:[0-9]{2}(\.[0-9]+)?(Z|[+-][0-9]{2}:[0-9]{2})?\Z")
RE_DURATION = re.compile(r"-?P([0-9]+D)?(T([0-9]+H)?([0-9]+M)?([0-9]+(\.[0-9]+)?S)?)?\Z")

TRICKY_STR = ["", " ", "  a  b ", "true", "false", "True", "1", "1e5", "-0", "2024-01-31", "2024-01-31T10:00:00", "PT1H", "P1D",
              "<&>\"'", "]]>", "a\tb", "a\nb", " \n ", "é中\U0001F600", "None", "null", "&amp;", "#FF0000", "=A1+1", " x "]


def values():
    ints = st.one_of(st.sampled_from([0, 1, -1, 2**63, -2**63, 2**63 - 1, 10**30, -10**30, 255, 10**15, 10**16 + 1]),
                     st.integers(-10**40, 10**40))
    floats = st.one_of(st.sampled_from([0.0, -0.0, 1.5, 1e16, 1e-7, 1.7976931348623157e308, 5e-324, 0.1, 1e22, 1e23, -2.5e-5, 123456789.123456789]),
                       st.floats(allow_nan=False, allow_infinity=False))
    decs = st.one_of(st.sampled_from([Decimal("1.50"), Decimal("0.0"), Decimal("-0"), Decimal("1E+3"), Decimal("1E-7"), Decimal("0.000000001"),
                                      Decimal("100"), Decimal("2.5"), Decimal("-1.10"), Decimal("123456789012345678901234567890.5")]),
                     st.decimals(allow_nan=False, allow_infinity=False, min_value=Decimal("-1e40"), max_value=Decimal("1e40"), places=6),
                     st.decimals(allow_nan=False, allow_infinity=False, min_value=-10**9, max_value=10**9))
    strs = st.one_of(st.sampled_from(TRICKY_STR),
                     st.text(alphabet=st.sampled_from(list("ab 01<>&\"'\t\néü中-:.TPZ")), max_size=12),
                     st.text(alphabet=st.characters(blacklist_categories=("Cs", "Cc"), blacklist_characters="￾￿"), max_size=10))
    dates = st.one_of(st.sampled_from([date(1, 1, 1), date(9999, 12, 31), date(999, 2, 28), date(2024, 2, 29), date(1000, 1, 1), date(1900, 1, 1)]),
                      st.dates(date(1, 1, 1), date(9999, 12, 31)))
    tzs = st.one_of(st.none(), st.just(timezone.utc), st.integers(-14 * 60, 14 * 60).map(lambda m: timezone(timedelta(minutes=m))))
    dts = st.tuples(st.one_of(st.sampled_from([datetime(1, 1, 1), datetime(9999, 12, 31, 23, 59, 59, 999999), datetime(2024, 1, 31),
                                               datetime(2024, 1, 31, 0, 0, 0, 1), datetime(2000, 2, 29, 12, 0, 0, 500000)]),
                              st.datetimes(datetime(1, 1, 1), datetime(9999, 12, 31, 23, 59, 59, 999999))), tzs).map(
        lambda p: p[0].replace(tzinfo=p[1]))
    tds = st.one_of(st.sampled_from([timedelta(0), timedelta(seconds=1), timedelta(seconds=-1), timedelta(days=1), timedelta(days=-1, seconds=1),
                                     timedelta(days=10000), timedelta(days=-10000), timedelta(hours=25, minutes=61), timedelta(seconds=86399)]),
                    st.integers(-10000 * 86400, 10000 * 86400).map(lambda s: timedelta(seconds=s)))
    return st.one_of(
        st.booleans().map(lambda v: ("bool", v)), ints.map(lambda v: ("int", v)), floats.map(lambda v: ("float", v)),
        decs.map(lambda v: ("decimal", v)), strs.map(lambda v: ("str", v)), dates.map(lambda v: ("date", v)),
        dts.map(lambda v: ("datetime", v)), tds.map(lambda v: ("timedelta", v)), st.just(("none", None)))


def corner(kind, v):
    if kind == "int":
        return abs(v) >= 2**53 or v in (0, 1, -1)
    if kind == "float":
        return v == 0 or abs(v) >= 1e16 or abs(v) < 1e-4 or v == int(v)
    if kind == "decimal":
        return v == v.to_integral_value() or "E" in str(v) or str(v).endswith("0")
    if kind == "str":
        return v in TRICKY_STR or v != v.strip() or any(c in v for c in "<>&\"'\t\n") or v == ""
    if kind == "date":
        return v.year < 1000 or v.year == 9999
    if kind == "datetime":
        return v.tzinfo is not None or v.microsecond != 0 or v.year < 1000 or (v.hour, v.minute, v.second) == (0, 0, 0)
    if kind == "timedelta":
        return v.days < 0 or abs(v.days) >= 1 or v == timedelta(0)
    return True


def equal(kind, v, r, meta=False):
    """documented read-back relation"""
    if kind == "none":
        return r is None
    if kind == "bool":
        return type(r) is bool and r == v
    if kind in ("int", "float", "decimal"):
        if type(r) is bool or not isinstance(r, (int, Decimal)):
            return False
        if meta and not isinstance(r, Decimal):
            return False
        if not meta and isinstance(r, Decimal) and r == r.to_integral_value() and kind != "x":
            return False  # documented: int when integral
        if kind == "float":
            return float(r) == v
        return r == v
    if kind == "str":
        return type(r) is str and r == v
    if kind == "date":
        return isinstance(r, datetime) and r.date() == v and r.time() == datetime.min.time()
    if kind == "datetime":
        if not isinstance(r, datetime) or (r.tzinfo is None) != (v.tzinfo is None) or r != v:
            return False
        return r.replace(tzinfo=None) == v.replace(tzinfo=None)
    if kind == "timedelta":
        return isinstance(r, timedelta) and r == v
    return False


def lexical(ctx, kind, v, el, sig, case):
    """attributes written for the value are in the ODF lexical space and decode independently to v"""
    a = el.attrib
    vt = a.get(odfread.q("office:value-type"))
    want_vt = {"bool": "boolean", "int": "float", "float": "float", "decimal": "float", "str": "string", "date": "date",
               "datetime": "date", "timedelta": "time", "none": None}[kind]
    ctx.check(vt == want_vt, sig + ("value-type",), f"{v!r}: office:value-type={vt!r}, expected {want_vt!r}", case)
    if kind == "bool":
        s = a.get(odfread.q("office:boolean-value"))
        ctx.check(s == ("true" if v else "false"), sig + ("lexical",), f"{v!r}: office:boolean-value={s!r}", case)
    elif kind in ("int", "float", "decimal"):
        s = a.get(odfread.q("office:value"))
        ok = s is not None and RE_DOUBLE.match(s)
        ctx.check(ok, sig + ("lexical",), f"{v!r}: office:value={s!r} is not a number literal", case)
        ctx.check((float(s) == v) if kind == "float" else (Decimal(s) == v), sig + ("attribute-value",), f"{v!r}: office:value={s!r}", case)
    elif kind == "str":
        s = a.get(odfread.q("office:string-value"))
        ctx.check(s == v, sig + ("attribute-value",), f"{v!r}: office:string-value parses as {s!r}", case)
    elif kind == "date":
        s = a.get(odfread.q("office:date-value"))
        ctx.check(s is not None and RE_DATE.match(s) and s == v.isoformat(), sig + ("lexical",), f"{v!r}: office:date-value={s!r}", case)
    elif kind == "datetime":
        s = a.get(odfread.q("office:date-value"))
        ok = s is not None and RE_DATETIME.match(s)
        ctx.check(ok, sig + ("lexical",), f"{v!r}: office:date-value={s!r} not xsd:dateTime", case)
        back = datetime.fromisoformat(s[:-1] + "+00:00" if s.endswith("Z") else s)
        ctx.check(back == v and (back.tzinfo is None) == (v.tzinfo is None), sig + ("attribute-value",), f"{v!r}: office:date-value={s!r}", case)
    elif kind == "timedelta":
        s = a.get(odfread.q("office:time-value"))
        ok = s is not None and RE_DURATION.match(s)
        ctx.check(ok, sig + ("lexical",), f"{v!r}: office:time-value={s!r} not xsd:duration", case)
        dummy = etree_cell(s)
        ctx.check(odfread.cell_value(dummy)[0] == v, sig + ("attribute-value",), f"{v!r}: office:time-value={s!r}", case)


def etree_cell(time_value):
    from lxml import etree

    el = etree.Element(odfread.T_CELL)
    el.set(odfread.q("office:value-type"), "time")
    el.set(odfread.q("office:time-value"), time_value)
    return el


def run_case(case, ctx):
    from odfdo import Cell, Document, Element, Paragraph, Row, Table
    from odfdo.variable import UserDefined, UserFieldDecl, VarSet

    kind, v = case["kind"], case["value"]
    if corner(kind, v):
        ctx.nontrivial((kind, repr(v)))
    ctx.count("kind:" + kind)

    def judge(carrier, got, meta=False):
        ctx.check(equal(kind, v, got, meta), ("C06", carrier, "read-back", kind),
                  f"{carrier}: stored {v!r} ({kind}), read back {got!r} ({type(got).__name__})", case)

    def reparse(el):
        return Element.from_tag(el.serialize())

    # ---- Cell -------------------------------------------------------------
    with ctx.guard(("C06", "Cell", "exception", kind), case):
        c = Cell(v)
        judge("Cell(v).value", c.value)
        judge("Cell(v).get_value", c.get_value())
        c2 = reparse(c)
        judge("Cell reparsed .value", c2.value)
        judge("Cell reparsed .get_value", c2.get_value())
        lexical(ctx, kind, v, odfread.parse_fragment(c.serialize()), ("C06", "Cell"), case)
        c3 = Cell()
        c3.set_value(v)
        judge("Cell.set_value", c3.get_value())
        if kind != "none":
            c4 = Cell("x")
            c4.value = v
            judge("cell.value=", c4.value)
            judge("cell.value= reparsed", reparse(c4).get_value())
    # ---- a display text next to the typed value never replaces the value ---------------
    if kind not in ("none",):
        with ctx.guard(("C06", "Cell-text", "exception", kind), case):
            for disp in ("(display)", "0", ""):
                ct = Cell(v, text=disp)
                judge("Cell(v, text=).get_value", ct.get_value())
                judge("Cell(v, text=).value", ct.value)
                rt = Row()
                rt.append_cell(ct)
                judge("Cell(v, text=) Row.get_values", rt.get_values()[0])
                judge("Cell(v, text=) Row.get_value", rt.get_value(0))
                tt = Table("X")
                tt.append_row(rt)
                judge("Cell(v, text=) Table.get_values", tt.get_values()[0][0])
                judge("Cell(v, text=) Table.get_value", tt.get_value((0, 0)))
                judge("Cell(v, text=) Table.get_column_values", tt.get_column_values(0)[0])
                judge("Cell(v, text=) reparsed", reparse(ct).get_value())
                lexical(ctx, kind, v, odfread.parse_fragment(ct.serialize()), ("C06", "Cell-text"), case)
                c5 = Cell()
                c5.set_value(v, text=disp)
                judge("Cell.set_value(v, text=)", c5.get_value())
                judge("Cell.set_value(v, text=) reparsed", reparse(c5).get_value())
    # ---- Row / Table --------------------------------------------------------
    with ctx.guard(("C06", "Table", "exception", kind), case):
        r = Row()
        r.set_value(1, v)
        judge("Row.set_value", r.get_value(1))
        t = Table("T")
        t.set_value((1, 1), v)
        judge("Table.set_value", t.get_value((1, 1)))
        t.set_values([[v, 1], [2, v]], coord=(2, 0))
        judge("Table.set_values", t.get_value((2, 0)))
        judge("Table.set_values-2", t.get_value((3, 1)))
        judge("Table.get_values", t.get_values()[1][1])
        t2 = reparse(t)
        judge("Table reparsed", t2.get_value((1, 1)))
        judge("Table reparsed get_row", t2.get_row(1).get_value(1))
    # ---- one Cell object built elsewhere, written at several places (default: the table keeps copies) -------------------
    with ctx.guard(("C06", "Cell-object-reused", "exception", kind), case):
        cobj = Cell(v)
        tg = Table("G")
        spots = [(2, 0), (3, 1), (2, 2), (5, 0), (0, 3)]
        for xy_ in spots:
            tg.set_cell(xy_, cobj)
        rg = Row()
        rg.set_cell(3, cobj)
        rg.set_cell(6, cobj)
        for phase in ("written", "after the caller changed its object"):
            for xy_ in spots:
                judge(f"Table.set_cell(same Cell object) at {xy_} {phase}", tg.get_value(xy_))
            judge(f"Row.set_cell(same Cell object) at 3 {phase}", rg.get_value(3))
            judge(f"Row.set_cell(same Cell object) at 6 {phase}", rg.get_value(6))
            judge(f"Table.set_cell(same Cell object) get_values {phase}", tg.get_values()[1][3])
            cobj.set_value("changed by the caller")
            cobj.style = "callerstyle"
        judge("Table.set_cell(same Cell object) reparsed", reparse(tg).get_value((2, 0)))
    # ---- variables / user fields ----------------------------------------------
    with ctx.guard(("C06", "variables", "exception", kind), case):
        vs = VarSet("v1", value=v)
        judge("VarSet", vs.get_value())
        judge("VarSet reparsed", reparse(vs).get_value())
        if kind != "none":
            lexical(ctx, kind, v, odfread.parse_fragment(vs.serialize()), ("C06", "VarSet"), case)
        vs.set_value(v)
        judge("VarSet.set_value", vs.get_value())
        uf = UserFieldDecl("u1", value=v)
        judge("UserFieldDecl", uf.get_value())
        judge("UserFieldDecl reparsed", reparse(uf).get_value())
        uf2 = UserFieldDecl("u2", value=3)
        uf2.set_value(v)
        judge("UserFieldDecl.set_value", uf2.get_value())
        ctx.check(uf2.name == "u2", ("C06", "UserFieldDecl.set_value", "name-lost"), f"name {uf2.name!r}", case)
        ud = UserDefined("d1", value=v)
        judge("UserDefined", ud.get_value())
        judge("UserDefined reparsed", reparse(ud).get_value())
    # ---- whole documents ----------------------------------------------------------
    if case.get("doc", True):
        with ctx.guard(("C06", "document", "exception", kind), case):
            doc = Document("spreadsheet")
            doc.body.clear()
            doc.body.append(t)
            if kind != "none":
                doc.meta.set_user_defined_metadata("key1", v)
                judge("Meta.user_defined", doc.meta.get_user_defined_metadata()["key1"], meta=True)
            buf = io.BytesIO()
            doc.save(buf)
            buf.seek(0)
            d2 = Document(buf)
            judge("Table after save+reload", d2.body.get_table(0).get_value((1, 1)))
            if kind != "none":
                judge("Meta.user_defined after save+reload", d2.meta.get_user_defined_metadata()["key1"], meta=True)
            tdoc = Document("text")
            p = Paragraph("x")
            p.append(vs)
            p.append(ud)
            tdoc.body.append(p)
            tdoc.body.append(uf)
            buf = io.BytesIO()
            tdoc.save(buf)
            buf.seek(0)
            t3 = Document(buf)
            judge("VarSet after save+reload", t3.body.get_element("descendant::text:variable-set").get_value())
            judge("UserFieldDecl after save+reload", t3.body.get_element("descendant::text:user-field-decl").get_value())
            judge("UserDefined after save+reload", t3.body.get_element("descendant::text:user-defined").get_value())


CONFUSABLE = [
    [("bool", True), ("int", 1), ("float", 1.0), ("decimal", Decimal("1.00")), ("str", "1"), ("str", "true"), ("str", "True")],
    [("bool", False), ("int", 0), ("float", 0.0), ("float", -0.0), ("decimal", Decimal("0.0")), ("str", ""), ("str", "0"), ("str", "false"), ("none", None)],
    [("datetime", datetime(2024, 1, 31, 12, 0, tzinfo=timezone.utc)), ("datetime", datetime(2024, 1, 31, 13, 0, tzinfo=timezone(timedelta(hours=1)))),
     ("datetime", datetime(2024, 1, 31, 12, 0)), ("str", "2024-01-31T12:00:00")],
    [("date", date(2024, 1, 31)), ("datetime", datetime(2024, 1, 31)), ("str", "2024-01-31")],
    [("timedelta", timedelta(hours=1)), ("timedelta", timedelta(seconds=3600)), ("str", "PT1H"), ("int", 3600)],
    [("int", 2), ("decimal", Decimal("2.0")), ("float", 2.0), ("decimal", Decimal("2")), ("str", "2")],
]


def row_values():
    fam = st.sampled_from(CONFUSABLE).flatmap(lambda f: st.lists(st.sampled_from(f), min_size=1, max_size=7))
    mixed = st.lists(st.one_of(st.sampled_from([x for f in CONFUSABLE for x in f]), values()), min_size=1, max_size=7)
    return st.one_of(fam, fam, mixed)


def confusable_pair(cells):
    for (k1, v1), (k2, v2) in zip(cells, cells[1:]):
        try:
            if (k1 != k2 or type(v1) is not type(v2) or repr(v1) != repr(v2)) and v1 == v2:
                return True
        except Exception:
            pass
    return False


def run_rows(case, ctx):
    """typed values stored side by side keep their own type and lexical form"""
    from odfdo import Cell, Document, Element, Row, Table

    cells = [tuple(c) for c in case["cells"]]
    start = case.get("start", 0)
    pre = case.get("pre", 0)
    vals = [v for _k, v in cells]
    if confusable_pair(cells):
        ctx.nontrivial(("rows", repr(cells)))
    ctx.count("rows:len=%d" % len(cells))

    def judge_list(carrier, got, offset=0):
        ctx.check(len(got) >= offset + len(cells), ("C06", carrier, "rows-width"), f"{carrier}: stored {vals!r} at {offset}, read back {got!r}", case)
        for i, (k, v) in enumerate(cells):
            g = got[offset + i]
            ctx.check(equal(k, v, g), ("C06", carrier, "rows-read-back", k),
                      f"{carrier}: stored {vals!r} at offset {offset}; position {i} ({v!r}, {k}) read back {g!r} ({type(g).__name__}); whole read {got!r}", case)

    def indep(el, y, offset, carrier):
        rows = odfread.expand_table(odfread.parse_fragment(el.serialize()))["rows"]
        got = [c[0] for c in rows[y]]
        for i, (k, v) in enumerate(cells):
            if k in ("str",):
                continue  # opaque without office:string-value is judged by the API reads
            g = got[offset + i] if offset + i < len(got) else "<missing>"
            ctx.check(g != "<missing>" and equal_indep(k, v, g), ("C06", carrier, "rows-independent", k),
                      f"{carrier}: stored {vals!r}; independent reader sees {g!r} at position {i} for {v!r}", case)

    with ctx.guard(("C06", "Row.set_values", "exception"), case):
        r = Row(width=pre) if pre else Row()
        if pre:
            r.set_values(["p"] * pre)
        r.set_values(vals, start=start)
        judge_list("Row.set_values", r.get_values(), start)
        judge_list("Row.set_values get_value", [r.get_value(x) for x in range(start + len(cells))], start)
        judge_list("Row.set_values get_cells", [c.get_value() for c in r.get_cells()], start)
        judge_list("Row.set_values traverse", [c.get_value() for c in r.traverse()], start)
        r2 = Element.from_tag(r.serialize())
        judge_list("Row.set_values reparsed", r2.get_values(), start)
        ctx.check(r.width == max(pre, start + len(cells)), ("C06", "Row.set_values", "rows-width"), f"width {r.width} after storing {vals!r} at {start} over {pre}", case)
    with ctx.guard(("C06", "Table.rows", "exception"), case):
        t = Table("T")
        t.set_values([vals, vals[::-1]], coord=(start, 1))
        judge_list("Table.set_values rows", t.get_values()[1], start)
        judge_list("Table.set_values rows get_row", t.get_row(1).get_values(), start)
        t.set_row_values(4, vals)
        judge_list("Table.set_row_values", t.get_row_values(4))
        judge_list("Table.set_row_values get_value", [t.get_value((x, 4)) for x in range(len(cells))])
        row = Row()
        row.set_values(vals)
        t.append_row(row)
        judge_list("Table.append_row", t.get_values()[t.height - 1])
        t.set_row_cells(6, [Cell(v) for v in vals])
        judge_list("Table.set_row_cells", t.get_row_values(6))
        indep(t, 4, 0, "Table.set_row_values")
        indep(t, 1, start, "Table.set_values rows")
        tc = Table("C", width=2, height=len(cells))
        tc.set_column_values(1, vals)
        judge_list("Table.set_column_values", tc.get_column_values(1))
        t2 = Element.from_tag(t.serialize())
        judge_list("Table rows reparsed", t2.get_row_values(4))
        judge_list("Table rows reparsed offset", t2.get_values()[1], start)
        if case.get("doc", True):
            doc = Document("spreadsheet")
            doc.body.clear()
            doc.body.append(t)
            buf = io.BytesIO()
            doc.save(buf)
            buf.seek(0)
            t3 = Document(buf).body.get_table(0)
            judge_list("Table rows after save+reload", t3.get_row_values(4))
            judge_list("Table rows after save+reload offset", t3.get_values()[1], start)


def run_overwrite(case, ctx):
    """a place that held a value of another type reads back the value written last, with its own type"""
    from odfdo import Cell, Document, Element, Row, Table
    from odfdo.variable import UserFieldDecl, VarSet

    seq = [tuple(c) for c in case["seq"]]
    vals = [v for _k, v in seq]
    kind, v = seq[-1]
    if confusable_pair(seq):
        ctx.nontrivial(("overwrite", repr(seq)))
    ctx.count("overwrite:len=%d" % len(seq))

    def judge(carrier, got, meta=False):
        ctx.check(equal(kind, v, got, meta), ("C06", carrier, "overwrite-read-back", kind),
                  f"{carrier}: wrote {vals!r} one after the other, read back {got!r} ({type(got).__name__})", case)

    with ctx.guard(("C06", "Cell-overwrite", "exception", kind), case):
        c = Cell(vals[0])
        for x in vals[1:]:
            c.set_value(x)
        judge("Cell.set_value xN", c.get_value())
        judge("Cell.set_value xN .value", c.value)
        judge("Cell.set_value xN reparsed", Element.from_tag(c.serialize()).get_value())
        lexical(ctx, kind, v, odfread.parse_fragment(c.serialize()), ("C06", "Cell-overwrite"), case)
        others = {"boolean": "office:boolean-value", "float": "office:value", "date": "office:date-value", "time": "office:time-value",
                  "string": "office:string-value"}
        el = odfread.parse_fragment(c.serialize())
        vt = el.get(odfread.q("office:value-type"))
        left = [a for t_, a in others.items() if t_ != vt and el.get(odfread.q(a)) is not None]
        ctx.check(not left, ("C06", "Cell-overwrite", "stale-attribute"), f"after {vals!r} the cell (type {vt}) still carries {left}", case)
        if kind != "none":
            c2 = Cell(vals[0])
            for x in vals[1:]:
                if x is not None:
                    c2.value = x
            judge("cell.value= xN", c2.value)
    with ctx.guard(("C06", "Table-overwrite", "exception", kind), case):
        r = Row()
        for x in vals:
            r.set_value(1, x)
        judge("Row.set_value xN", r.get_value(1))
        t = Table("T")
        for x in vals:
            t.set_value((1, 1), x)
        judge("Table.set_value xN", t.get_value((1, 1)))
        judge("Table.set_value xN get_values", t.get_values()[1][1])
        tr = Table("R")
        row = Row()
        row.append_cell(Cell(vals[0], repeated=3))
        row.repeated = 3
        tr.append_row(row)
        for x in vals[1:]:
            tr.set_value("B2", x)
        judge("Table.set_value xN in a repeated run", tr.get_value((1, 1)))
        ctx.check(equal(seq[0][0], seq[0][1], tr.get_value((0, 1))) and equal(seq[0][0], seq[0][1], tr.get_value((1, 2))),
                  ("C06", "Table.set_value xN in a repeated run", "neighbour-changed"),
                  f"neighbours of B2 after {vals!r}: {tr.get_values()!r}", case)
        ts = Table("S")
        for x in vals:
            ts.set_values([[x, 7]], coord=(1, 1))
        judge("Table.set_values xN", ts.get_value((1, 1)))
        tn = Table("N")
        for x in vals:
            tn.set_row_values(0, [x])
            tn.set_column_values(0, [x])
        judge("Table.set_column_values xN", tn.get_value((0, 0)))
        judge("Table reparsed xN", Element.from_tag(t.serialize()).get_value((1, 1)))
        judge("Table repeated-run reparsed xN", Element.from_tag(tr.serialize()).get_value((1, 1)))
    with ctx.guard(("C06", "variables-overwrite", "exception", kind), case):
        vs = VarSet("v1", value=vals[0])
        uf = UserFieldDecl("u1", value=vals[0])
        for x in vals[1:]:
            vs.set_value(x)
            uf.set_value(x)
        judge("VarSet.set_value xN", vs.get_value())
        judge("VarSet.set_value xN reparsed", Element.from_tag(vs.serialize()).get_value())
        judge("UserFieldDecl.set_value xN", uf.get_value())
        judge("UserFieldDecl.set_value xN reparsed", Element.from_tag(uf.serialize()).get_value())
    if case.get("doc", True):
        with ctx.guard(("C06", "document-overwrite", "exception", kind), case):
            doc = Document("spreadsheet")
            doc.body.clear()
            doc.body.append(t)
            doc.body.append(tr)
            if all(k != "none" for k, _v in seq):
                for x in vals:
                    doc.meta.set_user_defined_metadata("key1", x)
                judge("Meta.user_defined xN", doc.meta.get_user_defined_metadata()["key1"], meta=True)
            buf = io.BytesIO()
            doc.save(buf)
            buf.seek(0)
            d2 = Document(buf)
            judge("Table xN after save+reload", d2.body.get_table(0).get_value((1, 1)))
            judge("Table repeated-run xN after save+reload", d2.body.get_table(1).get_value((1, 1)))
            if all(k != "none" for k, _v in seq):
                judge("Meta.user_defined xN after save+reload", d2.meta.get_user_defined_metadata()["key1"], meta=True)


ACC_VALUES = {
    "float": [7.0, 12.5, 0.0, -3.25, 1e16],
    "int": [7, 0, 1, -3, 2**60],
    "decimal": [Decimal("7"), Decimal("12.50"), Decimal("12.5"), Decimal("0"), Decimal("-3.25")],
    "bool": [True, False],
    "string": ["7", "", "txt", "true", "12.5"],
    "date": [date(2024, 1, 31), date(1, 1, 1)],
    "datetime": [datetime(2024, 1, 31, 12, 30), datetime(2024, 1, 31, 12, 30, tzinfo=timezone.utc)],
    "duration": [timedelta(hours=7), timedelta(0), timedelta(days=-1, seconds=5)],
}
ACC_TYPE = {"float": "float", "int": "float", "decimal": "float", "bool": "boolean", "string": "string", "date": "date", "datetime": "date",
            "duration": "time"}
ACC_ATTR = {"float": "office:value", "boolean": "office:boolean-value", "string": "office:string-value", "date": "office:date-value",
            "time": "office:time-value", "percentage": "office:value", "currency": "office:value"}


def run_accessors(case, ctx):
    """the typed accessors of Cell used one after the other on the same cell: after each write the cell is of that type only"""
    from odfdo import Cell, Element

    start = case["start"]  # (value index, cell_type, currency) | None
    steps = [tuple(s_) for s_ in case["steps"]]
    ctx.count("accessor-steps", len(steps))
    with ctx.guard(("C06", "accessors", "exception"), case):
        if start is None:
            c = Cell()
        else:
            sv = ACC_VALUES["decimal"][start[0] % 5] if start[1] != "int" else ACC_VALUES["int"][start[0] % 5]
            c = Cell(sv, cell_type=start[1], currency=start[2])
        for i, (acc, vi_) in enumerate(steps):
            v = ACC_VALUES[acc][vi_ % len(ACC_VALUES[acc])]
            setattr(c, acc, v)
            where = f"after {['Cell()' if start is None else f'Cell(cell_type={start[1]!r})'] + [f'{a}={ACC_VALUES[a][j % len(ACC_VALUES[a])]!r}' for a, j in steps[:i + 1]]}"
            got = getattr(c, acc)
            if acc == "date":
                ok = isinstance(got, datetime) and got.date() == v and got.time() == datetime.min.time()  # documented: a datetime at midnight
            elif acc in ("float", "decimal", "int"):
                ok = got == v
            else:
                ok = got == v and type(got) is type(v)
            ctx.check(ok, ("C06", "accessors", "read-back", acc), f"{where}: cell.{acc} reads {got!r}", case)
            want_t = ACC_TYPE[acc]
            for el in (odfread.parse_fragment(c.serialize()), odfread.parse_fragment(Element.from_tag(c.serialize()).serialize())):
                vt = el.get(odfread.q("office:value-type"))
                ctx.check(vt == want_t and c.type == want_t, ("C06", "accessors", "type", acc),
                          f"{where}: office:value-type={vt!r}, cell.type={c.type!r}, expected {want_t!r}", case)
                left = sorted({a for a in set(ACC_ATTR.values()) | {"office:currency"} if a != ACC_ATTR[want_t] and el.get(odfread.q(a)) is not None})
                ctx.check(not left, ("C06", "accessors", "stale-attribute", acc), f"{where}: the {want_t} cell still carries {left}", case)
            gv = c.get_value(get_type=True)
            ctx.check(gv[1] == want_t, ("C06", "accessors", "get_value-type", acc), f"{where}: get_value(get_type=True) = {gv!r}", case)
    if start is not None and start[1] in ("currency", "percentage"):
        ctx.nontrivial(("accessors", repr(case)))


def equal_indep(kind, v, g):
    """value decoded by lib.odfread from the written attributes"""
    if kind == "none":
        return g is None
    if kind == "bool":
        return type(g) is bool and g == v
    if kind in ("int", "float", "decimal"):
        if type(g) is bool or not isinstance(g, (int, float, Decimal)):
            return False
        return float(g) == v if kind == "float" else Decimal(str(g)) == v if isinstance(g, float) else g == v
    if kind == "date":
        return (g.date() if isinstance(g, datetime) else g) == v and (not isinstance(g, datetime) or g.time() == datetime.min.time())
    if kind == "datetime":
        return isinstance(g, datetime) and (g.tzinfo is None) == (v.tzinfo is None) and g == v
    if kind == "timedelta":
        return isinstance(g, timedelta) and g == v
    return True


def replay(case, ctx):
    try:
        if "steps" in case:
            run_accessors(case, ctx)
        elif "seq" in case:
            run_overwrite(case, ctx)
        elif "cells" in case:
            run_rows(case, ctx)
        else:
            run_case(case, ctx)
    except Abandon:
        pass


def run_shard(ctx):
    def mk():
        @given(values(), st.integers(0, 3))
        def t(kv, d):
            ctx.ev()
            case = {"kind": kv[0], "value": kv[1], "doc": d == 0}
            try:
                run_case(case, ctx)
                ctx.maybe_sample({"kind": kv[0], "value": repr(kv[1])}, 499)
            except Abandon:
                pass
        return t

    ctx.run_given(mk, ctx.budget(14000, 120000))

    def mk_rows():
        @given(row_values(), st.integers(0, 3), st.integers(0, 4), st.integers(0, 3))
        def t(cells, start, pre, d):
            ctx.ev()
            case = {"cells": [list(c) for c in cells], "start": start, "pre": pre, "doc": d == 0}
            try:
                run_rows(case, ctx)
                ctx.maybe_sample({"cells": [repr(c[1]) for c in cells], "start": start, "pre": pre}, 499)
            except Abandon:
                pass
        return t

    ctx.run_given(mk_rows, ctx.budget(8000, 70000))

    def mk_over():
        @given(row_values().filter(lambda c: len(c) >= 2).map(lambda c: c[:4]), st.integers(0, 3))
        def t(seq, d):
            ctx.ev()
            case = {"seq": [list(c) for c in seq], "doc": d == 0}
            try:
                run_overwrite(case, ctx)
                ctx.maybe_sample({"seq": [repr(c[1]) for c in seq]}, 499)
            except Abandon:
                pass
        return t

    ctx.run_given(mk_over, ctx.budget(6000, 60000), salt=2)

    def mk_acc():
        start = st.one_of(st.none(), st.tuples(st.integers(0, 4), st.sampled_from(["currency", "percentage", "float", "currency"]),
                                               st.sampled_from(["EUR", None, "USD"])))
        step = st.tuples(st.sampled_from(sorted(ACC_VALUES)), st.integers(0, 4))
        # the same number written again through another accessor is the interesting neighbourhood: value indexes repeat
        @given(start, st.lists(step, min_size=1, max_size=5), st.integers(0, 4))
        def t(start_, steps, same):
            ctx.ev()
            if start_ is not None:
                steps = [(a, start_[0] if a in ("float", "int", "decimal") and same else j) for a, j in steps]
                start_ = [start_[0], start_[1], start_[2] if start_[1] == "currency" else None]
            case = {"start": start_, "steps": [list(x) for x in steps]}
            try:
                run_accessors(case, ctx)
                ctx.maybe_sample(case, 499)
            except Abandon:
                pass
        return t

    ctx.run_given(mk_acc, ctx.budget(5000, 50000), salt=3)
