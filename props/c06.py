"""C06 - typed values survive the trip through the document for every value of every type."""
from __future__ import annotations

import io
import re
from datetime import date, datetime, timedelta, timezone
from decimal import Decimal

from hypothesis import given, strategies as st

from lib import odfread
from lib.harness import Abandon

ID = "C06"
RULE = (
    "H: values per type with boundary-weighted sampling (bool; ints incl. 0, +-1, +-2^63, 10^30; finite floats with "
    "exponents and -0.0; Decimals with trailing zeros/exponents/tiny fractions; str incl. empty, blank-laden, XML-special, "
    "TAB/LF, and lexical forms of other types such as 'true', '1e5', '2024-01-31', 'PT1H'; dates 0001..9999; naive and aware "
    "datetimes with microseconds; whole-second timedeltas of either sign; None) x carriers {Cell(v), cell.value=, "
    "Cell.set_value, Row.set_value, Table.set_value, Table.set_values, VarSet, UserFieldDecl (+set_value), UserDefined, "
    "Meta.set_user_defined_metadata}. Oracle: read-back equal and of the corresponding type, directly, after "
    "Element.from_tag(serialize()), and after Document.save(BytesIO)+reload; the written attribute matches the ODF lexical "
    "space of its type and an independent lxml reader decodes the same value. Non-trivial = value in a corner class; "
    "distinct by (label, repr(value))."
)
ASSUMPTIONS = [
    "numeric read-back: int if integral else Decimal (documented); a float f equals a read value r iff float(r) == f",
    "Date.decode returns a datetime at midnight (documented); user-defined metadata numbers read back as Decimal (documented)",
    "sub-second timedeltas, NaN/inf, CR and XML-forbidden control characters are outside the property",
    "lxml decodes attribute values per XML 1.0",
]

RE_DOUBLE = re.compile(r"[+-]?([0-9]+(\.[0-9]*)?|\.[0-9]+)([eE][+-]?[0-9]+)?\Z")
RE_DATE = re.compile(r"-?[0-9]{4,}-[0-9]{2}-[0-9]{2}\Z")
RE_DATETIME = re.compile(r"-?[0-9]{4,}-[0-9]{2}-[0-9]{2}T[0-9]{2}:[0-9]{2}:[0-9]{2}(\.[0-9]+)?(Z|[+-][0-9]{2}:[0-9]{2})?\Z")
RE_DURATION = re.compile(r"-?P([0-9]+D)?(T([0-9]+H)?([0-9]+M)?([0-9]+(\.[0-9]+)?S)?)?\Z")

TRICKY_STR = ["", " ", "  a  b ", "true", "false", "True", "1", "1e5", "-0", "2024-01-31", "2024-01-31T10:00:00", "PT1H", "P1D",
              "<&>\"'", "]]>", "a\tb", "a\nb", " \n ", "é中\U0001F600", "None", "null", "&amp;", "#FF0000", "=A1+1", " x "]


def values():
    ints = st.one_of(st.sampled_from([0, 1, -1, 2**63, -2**63, 2**63 - 1, 10**30, -10**30, 255, 10**15, 10**16 + 1]),
                     st.integers(-10**40, 10**40))
    floats = st.one_of(st.sampled_from([0.0, -0.0, 1.5, 1e16, 1e-7, 1.7976931348623157e308, 5e-324, 0.1, 1e22, 1e23, -2.5e-5, 123456789.123456789]),
                       st.floats(allow_nan=False, allow_infinity=False))
    decs = st.one_of(st.sampled_from([Decimal("1.50"), Decimal("0.0"), Decimal("-0"), Decimal("1E+3"), Decimal("1E-7"), Decimal("0.000000001"),
                                      Decimal("100"), Decimal("2.5"), Decimal("-1.10"), Decimal("123456789012345678901234567890.5")]),
                     st.decimals(allow_nan=False, allow_infinity=False, min_value=Decimal("-1e40"), max_value=Decimal("1e40"), places=6),
                     st.decimals(allow_nan=False, allow_infinity=False, min_value=-10**9, max_value=10**9))
    strs = st.one_of(st.sampled_from(TRICKY_STR),
                     st.text(alphabet=st.sampled_from(list("ab 01<>&\"'\t\néü中-:.TPZ")), max_size=12),
                     st.text(alphabet=st.characters(blacklist_categories=("Cs", "Cc"), blacklist_characters="￾￿"), max_size=10))
    dates = st.one_of(st.sampled_from([date(1, 1, 1), date(9999, 12, 31), date(999, 2, 28), date(2024, 2, 29), date(1000, 1, 1), date(1900, 1, 1)]),
                      st.dates(date(1, 1, 1), date(9999, 12, 31)))
    tzs = st.one_of(st.none(), st.just(timezone.utc), st.integers(-14 * 60, 14 * 60).map(lambda m: timezone(timedelta(minutes=m))))
    dts = st.tuples(st.one_of(st.sampled_from([datetime(1, 1, 1), datetime(9999, 12, 31, 23, 59, 59, 999999), datetime(2024, 1, 31),
                                               datetime(2024, 1, 31, 0, 0, 0, 1), datetime(2000, 2, 29, 12, 0, 0, 500000)]),
                              st.datetimes(datetime(1, 1, 1), datetime(9999, 12, 31, 23, 59, 59, 999999))), tzs).map(
        lambda p: p[0].replace(tzinfo=p[1]))
    tds = st.one_of(st.sampled_from([timedelta(0), timedelta(seconds=1), timedelta(seconds=-1), timedelta(days=1), timedelta(days=-1, seconds=1),
                                     timedelta(days=10000), timedelta(days=-10000), timedelta(hours=25, minutes=61), timedelta(seconds=86399)]),
                    st.integers(-10000 * 86400, 10000 * 86400).map(lambda s: timedelta(seconds=s)))
    return st.one_of(
        st.booleans().map(lambda v: ("bool", v)), ints.map(lambda v: ("int", v)), floats.map(lambda v: ("float", v)),
        decs.map(lambda v: ("decimal", v)), strs.map(lambda v: ("str", v)), dates.map(lambda v: ("date", v)),
        dts.map(lambda v: ("datetime", v)), tds.map(lambda v: ("timedelta", v)), st.just(("none", None)))


def corner(kind, v):
    if kind == "int":
        return abs(v) >= 2**53 or v in (0, 1, -1)
    if kind == "float":
        return v == 0 or abs(v) >= 1e16 or abs(v) < 1e-4 or v == int(v)
    if kind == "decimal":
        return v == v.to_integral_value() or "E" in str(v) or str(v).endswith("0")
    if kind == "str":
        return v in TRICKY_STR or v != v.strip() or any(c in v for c in "<>&\"'\t\n") or v == ""
    if kind == "date":
        return v.year < 1000 or v.year == 9999
    if kind == "datetime":
        return v.tzinfo is not None or v.microsecond != 0 or v.year < 1000 or (v.hour, v.minute, v.second) == (0, 0, 0)
    if kind == "timedelta":
        return v.days < 0 or abs(v.days) >= 1 or v == timedelta(0)
    return True


def equal(kind, v, r, meta=False):
    """documented read-back relation"""
    if kind == "none":
        return r is None
    if kind == "bool":
        return type(r) is bool and r == v
    if kind in ("int", "float", "decimal"):
        if type(r) is bool or not isinstance(r, (int, Decimal)):
            return False
        if meta and not isinstance(r, Decimal):
            return False
        if not meta and isinstance(r, Decimal) and r == r.to_integral_value() and kind != "x":
            return False  # documented: int when integral
        if kind == "float":
            return float(r) == v
        return r == v
    if kind == "str":
        return type(r) is str and r == v
    if kind == "date":
        return isinstance(r, datetime) and r.date() == v and r.time() == datetime.min.time()
    if kind == "datetime":
        if not isinstance(r, datetime) or (r.tzinfo is None) != (v.tzinfo is None) or r != v:
            return False
        return r.replace(tzinfo=None) == v.replace(tzinfo=None)
    if kind == "timedelta":
        return isinstance(r, timedelta) and r == v
    return False


def lexical(ctx, kind, v, el, sig, case):
    """attributes written for the value are in the ODF lexical space and decode independently to v"""
    a = el.attrib
    vt = a.get(odfread.q("office:value-type"))
    want_vt = {"bool": "boolean", "int": "float", "float": "float", "decimal": "float", "str": "string", "date": "date",
               "datetime": "date", "timedelta": "time", "none": None}[kind]
    ctx.check(vt == want_vt, sig + ("value-type",), f"{v!r}: office:value-type={vt!r}, expected {want_vt!r}", case)
    if kind == "bool":
        s = a.get(odfread.q("office:boolean-value"))
        ctx.check(s == ("true" if v else "false"), sig + ("lexical",), f"{v!r}: office:boolean-value={s!r}", case)
    elif kind in ("int", "float", "decimal"):
        s = a.get(odfread.q("office:value"))
        ok = s is not None and RE_DOUBLE.match(s)
        ctx.check(ok, sig + ("lexical",), f"{v!r}: office:value={s!r} is not a number literal", case)
        ctx.check((float(s) == v) if kind == "float" else (Decimal(s) == v), sig + ("attribute-value",), f"{v!r}: office:value={s!r}", case)
    elif kind == "str":
        s = a.get(odfread.q("office:string-value"))
        ctx.check(s == v, sig + ("attribute-value",), f"{v!r}: office:string-value parses as {s!r}", case)
    elif kind == "date":
        s = a.get(odfread.q("office:date-value"))
        ctx.check(s is not None and RE_DATE.match(s) and s == v.isoformat(), sig + ("lexical",), f"{v!r}: office:date-value={s!r}", case)
    elif kind == "datetime":
        s = a.get(odfread.q("office:date-value"))
        ok = s is not None and RE_DATETIME.match(s)
        ctx.check(ok, sig + ("lexical",), f"{v!r}: office:date-value={s!r} not xsd:dateTime", case)
        back = datetime.fromisoformat(s[:-1] + "+00:00" if s.endswith("Z") else s)
        ctx.check(back == v and (back.tzinfo is None) == (v.tzinfo is None), sig + ("attribute-value",), f"{v!r}: office:date-value={s!r}", case)
    elif kind == "timedelta":
        s = a.get(odfread.q("office:time-value"))
        ok = s is not None and RE_DURATION.match(s)
        ctx.check(ok, sig + ("lexical",), f"{v!r}: office:time-value={s!r} not xsd:duration", case)
        dummy = etree_cell(s)
        ctx.check(odfread.cell_value(dummy)[0] == v, sig + ("attribute-value",), f"{v!r}: office:time-value={s!r}", case)


def etree_cell(time_value):
    from lxml import etree

    el = etree.Element(odfread.T_CELL)
    el.set(odfread.q("office:value-type"), "time")
    el.set(odfread.q("office:time-value"), time_value)
    return el


def run_case(case, ctx):
    from odfdo import Cell, Document, Element, Paragraph, Row, Table
    from odfdo.variable import UserDefined, UserFieldDecl, VarSet

    kind, v = case["kind"], case["value"]
    if corner(kind, v):
        ctx.nontrivial((kind, repr(v)))
    ctx.count("kind:" + kind)

    def judge(carrier, got, meta=False):
        ctx.check(equal(kind, v, got, meta), ("C06", carrier, "read-back", kind),
                  f"{carrier}: stored {v!r} ({kind}), read back {got!r} ({type(got).__name__})", case)

    def reparse(el):
        return Element.from_tag(el.serialize())

    # ---- Cell -------------------------------------------------------------
    with ctx.guard(("C06", "Cell", "exception", kind), case):
        c = Cell(v)
        judge("Cell(v).value", c.value)
        judge("Cell(v).get_value", c.get_value())
        c2 = reparse(c)
        judge("Cell reparsed .value", c2.value)
        judge("Cell reparsed .get_value", c2.get_value())
        lexical(ctx, kind, v, odfread.parse_fragment(c.serialize()), ("C06", "Cell"), case)
        c3 = Cell()
        c3.set_value(v)
        judge("Cell.set_value", c3.get_value())
        if kind != "none":
            c4 = Cell("x")
            c4.value = v
            judge("cell.value=", c4.value)
            judge("cell.value= reparsed", reparse(c4).get_value())
    # ---- Row / Table --------------------------------------------------------
    with ctx.guard(("C06", "Table", "exception", kind), case):
        r = Row()
        r.set_value(1, v)
        judge("Row.set_value", r.get_value(1))
        t = Table("T")
        t.set_value((1, 1), v)
        judge("Table.set_value", t.get_value((1, 1)))
        t.set_values([[v, 1], [2, v]], coord=(2, 0))
        judge("Table.set_values", t.get_value((2, 0)))
        judge("Table.set_values-2", t.get_value((3, 1)))
        judge("Table.get_values", t.get_values()[1][1])
        t2 = reparse(t)
        judge("Table reparsed", t2.get_value((1, 1)))
        judge("Table reparsed get_row", t2.get_row(1).get_value(1))
    # ---- variables / user fields ----------------------------------------------
    with ctx.guard(("C06", "variables", "exception", kind), case):
        vs = VarSet("v1", value=v)
        judge("VarSet", vs.get_value())
        judge("VarSet reparsed", reparse(vs).get_value())
        if kind != "none":
            lexical(ctx, kind, v, odfread.parse_fragment(vs.serialize()), ("C06", "VarSet"), case)
        vs.set_value(v)
        judge("VarSet.set_value", vs.get_value())
        uf = UserFieldDecl("u1", value=v)
        judge("UserFieldDecl", uf.get_value())
        judge("UserFieldDecl reparsed", reparse(uf).get_value())
        uf2 = UserFieldDecl("u2", value=3)
        uf2.set_value(v)
        judge("UserFieldDecl.set_value", uf2.get_value())
        ctx.check(uf2.name == "u2", ("C06", "UserFieldDecl.set_value", "name-lost"), f"name {uf2.name!r}", case)
        ud = UserDefined("d1", value=v)
        judge("UserDefined", ud.get_value())
        judge("UserDefined reparsed", reparse(ud).get_value())
    # ---- whole documents ----------------------------------------------------------
    if case.get("doc", True):
        with ctx.guard(("C06", "document", "exception", kind), case):
            doc = Document("spreadsheet")
            doc.body.clear()
            doc.body.append(t)
            if kind != "none":
                doc.meta.set_user_defined_metadata("key1", v)
                judge("Meta.user_defined", doc.meta.get_user_defined_metadata()["key1"], meta=True)
            buf = io.BytesIO()
            doc.save(buf)
            buf.seek(0)
            d2 = Document(buf)
            judge("Table after save+reload", d2.body.get_table(0).get_value((1, 1)))
            if kind != "none":
                judge("Meta.user_defined after save+reload", d2.meta.get_user_defined_metadata()["key1"], meta=True)
            tdoc = Document("text")
            p = Paragraph("x")
            p.append(vs)
            p.append(ud)
            tdoc.body.append(p)
            tdoc.body.append(uf)
            buf = io.BytesIO()
            tdoc.save(buf)
            buf.seek(0)
            t3 = Document(buf)
            judge("VarSet after save+reload", t3.body.get_element("descendant::text:variable-set").get_value())
            judge("UserFieldDecl after save+reload", t3.body.get_element("descendant::text:user-field-decl").get_value())
            judge("UserDefined after save+reload", t3.body.get_element("descendant::text:user-defined").get_value())


def replay(case, ctx):
    try:
        run_case(case, ctx)
    except Abandon:
        pass


def run_shard(ctx):
    def mk():
        @given(values(), st.integers(0, 3))
        def t(kv, d):
            ctx.ev()
            case = {"kind": kv[0], "value": kv[1], "doc": d == 0}
            try:
                run_case(case, ctx)
                ctx.maybe_sample({"kind": kv[0], "value": repr(kv[1])}, 499)
            except Abandon:
                pass
        return t

    ctx.run_given(mk, ctx.budget(14000, 500000))
