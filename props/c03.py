"""C03 - saving and reopening a document loses nothing, in every packaging."""
from lib.docmachine import make_doc_machine, run_doc_history
from lib.harness import Abandon

ID = "C03"
RULE = (
    "Hypothesis rule-based state machine over documents: source = each of the 4 templates and every sample under "
    "tests/samples opened by path (lazy zip), from BytesIO, or from a folder written by an independent unzip (thorough adds the "
    "files > 60 kB); rules = append paragraph/heading/list/table, insert_style (common/automatic), meta title and user-defined "
    "metadata, add_file(path|BytesIO, optional image frame), del_part of a non-mandatory part, set_part of a binary part and of "
    "content.xml (before and after the part was parsed, short and long name), reading rules that change which parts are "
    "parsed, save with packaging {zip, folder, xml} x target {path, BytesIO} followed by reopen and continuation on the reopened "
    "document. Oracle at each save, on the package read with zipfile/os.walk + lxml: part names = the independently maintained "
    "package model (nothing lost or invented), mimetype and binary parts byte-identical, untouched XML parts C14N-equal to the "
    "source (meta modulo generator), every edit token present and ordered, set_part bytes honoured, in-memory part C14N-equal to "
    "the saved one, reopened document equal part by part; flat XML: well-formed, office:mimetype, tokens included. "
    "Evaluations = machine steps. Non-trivial history = lazily opened document saved with at least one part never read and "
    ">= 1 edit, or a set_part of an XML part; distinct by (source, ops)."
    ' Sources also as transformed copies (comments and processing instructions around/inside the roots; ISO-8859-1 and UTF-'
    '16 encodings of the XML parts; directory entries repeated in the zip directory); saves also in place (over the file or'
    ' folder the document came from; inplace_cycle); wrappers kept across saves (body, a paragraph, a style, meta) and edit'
    'ed without asking the document again (kept_cycle). Whole-document canonical form includes comments/PIs around the root'
    '.'
)
ASSUMPTIONS = [
    "zipfile, os.walk and lxml C14N are correct; the package model mirrors only documented effects (add_file adds one part, del_part removes one, set_part replaces bytes)",
    "manifest.rdf is added/removed by save according to the manifest (documented synchronisation) and is left to C04",
    "folder packaging is compared with pretty=False (layout neutrality of pretty printing is C11)",
]


def run_shard(ctx):
    M = make_doc_machine(ctx, "C03")
    ctx.run_machine(M, ctx.budget(16 * 130, 16 * 800), 12 if not ctx.thorough else 20, replay=replay_raise)


def replay_raise(case, ctx):
    run_doc_history(case["source"], case["ops"], "C03", ctx)


def replay(case, ctx):
    try:
        replay_raise(case, ctx)
    except Abandon:
        pass
