"""C20 - a filled table of contents lists exactly the headings, in order, numbered right."""
from __future__ import annotations

import contextlib
import io

from hypothesis import given, strategies as st

from lib import odfread
from lib.harness import Abandon

ID = "C20"
RULE = (
    "H over histories: a text document with a TOC placed at a random position among 0-25 headings of levels 1..10 in any order "
    "(skipped levels included) interleaved with paragraphs; heading texts with blank runs, edge blanks, TAB, spans; outline level "
    "0..10; optional title; then steps {fill (default styles or not, via attached document or argument), fill twice, edit a "
    "heading text, add / remove a heading, change a level, change the outline level}. Oracle after every fill, on the lxml tree: "
    "the paragraphs of text:index-body (title kept first when given) are, in document order, exactly the headings with level <= "
    "outline level (0 = all); the ODF-interpreted text of each is '<number> <heading text>' with the number from an independent "
    "outline counter (missing ancestors count as 1 and stay consumed; deeper counters reset) and nothing else; a second fill "
    "leaves the TOC serialisation unchanged; scripts.headers.headers_document prints the same 'number heading' sequence for the "
    "same depth. Non-trivial = heading sequence with a level skip followed later by a shallower heading, or a heading with "
    "inline markup / blanks; distinct by (items, steps)."
    ' Also: save(+pretty)/reload between fills, a title set or changed after creation (set_toc_title), heading levels up to'
    ' 13 and outline levels up to 14.'
    ' Second family (several TOCs): 2-3 TOCs with their own titles / outline levels at random places of one document, filled in a'
    ' random order (with a save+reload in between): each filled TOC lists the headings by its own level under its own title, and'
    ' filling one leaves the serialisation of the others unchanged.'
)
ASSUMPTIONS = [
    "numbering of skipped levels follows odfdo's documented convention (missing ancestor = 1); the property only asks for a consistent outline",
    "heading text = ODF white-space interpretation of the heading's own content (lib/odfread.ws_text)",
    "headings carry no notes (a note is not heading text)",
]

TEXTS = ["Intro", "a b", "a  b", " lead", "trail ", "tab\there", "é ü", "x", "Two  blanks  twice", "A&B <c>", "1. numbered", ""]


def outline_numbers(levels, depth):
    """independent outline counter -> list of (index in levels, number string)"""
    c = [0] * 20
    out = []
    for i, L in enumerate(levels):
        if L > depth:
            continue
        for j in range(1, L):
            if c[j] == 0:
                c[j] = 1
        c[L] += 1
        for j in range(L + 1, 20):
            c[j] = 0
        out.append((i, ".".join(str(c[j]) for j in range(1, L + 1)) + "."))
    return out


def make_heading(level, spec):
    from odfdo import Header, Span

    h = Header(level, spec["text"])
    if spec.get("span"):
        h.append(Span(spec["span"], style="T1"))
        if spec.get("after"):
            h.append(spec["after"])
    return h


def build(case):
    from odfdo import Document, Paragraph
    from odfdo.toc import TOC

    doc = Document("text")
    body = doc.body
    body.clear()
    items = case["items"]
    pos = case["toc_pos"] % (len(items) + 1)
    toc = TOC(title=case["title"] or "", outline_level=case["outline"]) if case["title"] is not None else TOC(outline_level=case["outline"])
    for i, it in enumerate(items):
        if i == pos:
            body.append(toc)
        if it["k"] == "h":
            body.append(make_heading(it["level"], it))
        else:
            body.append(Paragraph(it["text"]))
    if pos >= len(items):
        body.append(toc)
    return doc, toc


def judge(ctx, doc, toc, case, where, default_styles, title="$case"):
    if title == "$case":
        title = case["title"]
    xml = doc.content.serialize()
    root = odfread.parse(xml)
    tocs = list(root.iter(odfread.q("text:table-of-content")))
    ctx.check(len(tocs) == 1, ("C20", where, "toc-count"), f"{len(tocs)} TOC elements", case)
    tel = tocs[0]
    bodies = [ch for ch in tel if ch.tag == odfread.q("text:index-body")]
    ctx.check(len(bodies) == 1, ("C20", where, "index-body-count"), f"{len(bodies)} index bodies", case)
    ib = bodies[0]
    src = [ch for ch in tel if ch.tag == odfread.q("text:table-of-content-source")]
    depth_attr = int(src[0].get(odfread.q("text:outline-level")) or 0) if src else 0
    depth = depth_attr or 10
    # headings of the document in order (independent walk; headings inside the TOC itself do not exist)
    heads = [h for h in root.iter(odfread.T_H)]
    levels = [int(h.get(odfread.q("text:outline-level")) or 0) for h in heads]
    texts = [odfread.ws_text(h) for h in heads]
    want = [f"{num} {texts[i]}" for i, num in outline_numbers(levels, depth)]
    entries = [ch for ch in ib if ch.tag == odfread.T_P]
    got = [odfread.ws_text(p) for p in entries]
    ctx.check(got == want, ("C20", where, "entries"),
              f"outline level {depth_attr}, heading levels {levels}: TOC lists {got!r}, expected {want!r}", case)
    for p in entries:
        ctx.check(not any(True for _ in p.iter(odfread.T_LB)) or any("\n" in t for t in texts), ("C20", where, "entry-has-line-break"),
                  f"TOC entry contains a line break: {odfread.ws_text(p)!r}", case)
    titles = [ch for ch in ib if ch.tag == odfread.q("text:index-title")]
    if title:
        ctx.check(len(titles) == 1 and odfread.ws_text(titles[0][0]) == title and ib[0] is titles[0], ("C20", where, "title"),
                  f"title {title!r} not kept first: {[odfread.ws_text(t) for t in titles]}", case)
    if default_styles and entries:
        # every entry uses a paragraph style, and that style exists in the document (once)
        sroot = odfread.parse(doc.styles.serialize())
        known = [st_.get(odfread.q("style:name")) for r_ in (root, sroot) for st_ in r_.iter(odfread.q("style:style"))
                 if st_.get(odfread.q("style:family")) == "paragraph"]
        for p in entries:
            sn = p.get(odfread.q("text:style-name"))
            if sn and sn.rsplit("_", 1)[-1].isdigit() and int(sn.rsplit("_", 1)[-1]) > 10:
                continue  # ODF defines ten outline levels; deeper headings are outside the property (the library has no style for them)
            ctx.check(sn is not None and known.count(sn) == 1, ("C20", where, "entry-style-missing"),
                      f"TOC entry {odfread.ws_text(p)!r} uses paragraph style {sn!r}, defined {known.count(sn)} time(s) in the document", case)
    others = [ch.tag for ch in ib if ch.tag not in (odfread.T_P, odfread.q("text:index-title"))]
    ctx.check(not others, ("C20", where, "foreign-children"), f"index body holds {others}", case)
    # the heading-listing tool reports the same outline
    from odfdo.scripts import headers as hs

    buf = io.StringIO()
    with contextlib.redirect_stdout(buf):
        hs.headers_document(doc, depth)
    tool = buf.getvalue()
    want_tool = "".join(f"{num} {_inner(heads[i])}\n" for i, num in outline_numbers(levels, depth))
    ctx.check(tool == want_tool, ("C20", where, "headers-tool"),
              f"odfdo-headers prints {tool!r}, the outline is {want_tool!r}", case)
    return len(entries)


def _inner(h):
    """text as the tool prints it: text nodes + text:s as blanks, tab, line break (no white-space stripping)"""
    from props.c09 import linear

    return linear(h)


_PREVIOUS = None


def run_case(case, ctx):
    from odfdo import Header

    with ctx.guard(("C20", "build", "exception"), case):
        doc, toc = build(case)
    n_fill = 0
    title = case["title"]
    for step in case["steps"]:
        k = step["k"]
        with ctx.guard(("C20", k, "exception"), case):
            if k in ("fill", "fill-arg", "fill-nostyle"):
                if k == "fill-arg":
                    toc.fill(doc)
                elif k == "fill-nostyle":
                    toc.fill(use_default_styles=False)
                else:
                    toc.fill()
                n_fill += 1
                judge(ctx, doc, toc, case, k, k != "fill-nostyle", title)
                once = toc.serialize()
                toc.fill() if k != "fill-nostyle" else toc.fill(use_default_styles=False)
                ctx.check(toc.serialize() == once, ("C20", k, "not-idempotent"),
                          f"a second fill changed the TOC:\n{once}\n{toc.serialize()}", case)
            elif k == "edit":
                hs = doc.body.get_headers()
                if hs:
                    h = hs[step["i"] % len(hs)]
                    h.text = ""
                    for ch in h.children:
                        h.delete(ch, keep_tail=False)
                    h.append(TEXTS[step["t"] % len(TEXTS)])
            elif k == "add":
                doc.body.append(Header(step["level"], TEXTS[step["t"] % len(TEXTS)]))
            elif k == "remove":
                hs = doc.body.get_headers()
                if hs:
                    hs[step["i"] % len(hs)].delete()
            elif k == "level":
                hs = doc.body.get_headers()
                if hs:
                    hs[step["i"] % len(hs)].level = step["level"]
            elif k == "outline":
                toc.outline_level = step["level"]
            elif k == "title":
                # the title given (or changed) after creation, possibly after a first fill
                title = ["Contents", "Table des matières", "T2", "Sommaire", "Index of headings"][step["t"] % 5]
                toc.set_toc_title(title)
                ctx.check(toc.get_title() == title, ("C20", "title", "get_title"), f"set_toc_title({title!r}) then get_title() = {toc.get_title()!r}", case)
                ctx.count("title-set-later")
            elif k == "reload":
                # what a user does: save (optionally indented), open again, refresh the table of contents
                from odfdo import Document

                buf = io.BytesIO()
                doc.save(buf, pretty=bool(step.get("pretty")))
                buf.seek(0)
                doc = Document(buf)
                tocs = doc.body.get_tocs()
                ctx.check(len(tocs) == 1, ("C20", "reload", "toc-count"), f"{len(tocs)} TOC after save+reload", case)
                toc = tocs[0]
                ctx.count("reload:" + ("pretty" if step.get("pretty") else "plain"))
    if n_fill == 0:
        with ctx.guard(("C20", "fill", "exception"), case):
            toc.fill()
            judge(ctx, doc, toc, case, "fill", True, title)
    # documents are independent: filling this one must not have taken anything from the one filled before it in this process
    global _PREVIOUS
    if _PREVIOUS is not None:
        pdoc, pcase, pxml = _PREVIOUS
        ctx.check(pdoc.content.serialize() == pxml, ("C20", "fill", "changes-another-document"),
                  f"filling a TOC in one document changed the content.xml of the document filled before it (previous case: {str(pcase)[:300]})",
                  {"pair": [pcase, case]})
    _PREVIOUS = (doc, case, doc.content.serialize()) if n_fill else None
    levels = [it["level"] for it in case["items"] if it["k"] == "h"]
    skip_then_shallow = any(levels[i + 1] - levels[i] > 1 and any(l2 < levels[i + 1] for l2 in levels[i + 2:]) for i in range(len(levels) - 1))
    markup = any(it["k"] == "h" and (it.get("span") or "  " in it["text"] or it["text"] != it["text"].strip() or "\t" in it["text"]) for it in case["items"])
    if skip_then_shallow or markup:
        ctx.nontrivial(case)
    ctx.count("skip-then-shallow" if skip_then_shallow else "plain-outline")


def run_multi(case, ctx):
    """Several tables of contents in one document, filled in any order: each lists the headings by its own outline level
    under its own title, and filling one leaves the others as they were."""
    from odfdo import Document, Paragraph
    from odfdo.toc import TOC

    specs = case["tocs"]
    with ctx.guard(("C20", "multi-build", "exception"), case):
        doc = Document("text")
        body = doc.body
        body.clear()
        items = case["items"]
        objs = [TOC(title=sp["title"], outline_level=sp["outline"]) if sp["title"] is not None else TOC(outline_level=sp["outline"]) for sp in specs]
        place = sorted((sp["pos"] % (len(items) + 1), t) for t, sp in enumerate(specs))
        for i in range(len(items) + 1):
            for pos, t in place:
                if pos == i:
                    body.append(objs[t])
            if i < len(items):
                it = items[i]
                body.append(make_heading(it["level"], it) if it["k"] == "h" else Paragraph(it["text"]))
    order_in_doc = [t for _, t in place]
    filled = set()
    for n, pick in enumerate(case["order"]):
        t = pick % len(specs)
        with ctx.guard(("C20", "multi-fill", "exception"), case):
            if case.get("reload") and n == case["reload"] % len(case["order"]):
                buf = io.BytesIO()
                doc.save(buf)
                buf.seek(0)
                doc = Document(buf)
                got_tocs = doc.body.get_tocs()
                ctx.check(len(got_tocs) == len(specs), ("C20", "multi-reload", "toc-count"), f"{len(got_tocs)} TOC after reload, {len(specs)} before", case)
                for k, t_ in enumerate(order_in_doc):
                    objs[t_] = got_tocs[k]
            before = [o.serialize() for o in objs]
            objs[t].fill()
            filled.add(t)
            after = [o.serialize() for o in objs]
        for u in range(len(specs)):
            if u != t:
                ctx.check(before[u] == after[u], ("C20", "multi-fill", "other-toc-changed"),
                          f"filling TOC #{t} changed TOC #{u}:\n{before[u]}\n->\n{after[u]}", case)
        root = odfread.parse(doc.content.serialize())
        tels = list(root.iter(odfread.q("text:table-of-content")))
        ctx.check(len(tels) == len(specs), ("C20", "multi-fill", "toc-count"), f"{len(tels)} TOC elements, expected {len(specs)}", case)
        heads = [h for h in root.iter(odfread.T_H)]
        levels = [int(h.get(odfread.q("text:outline-level")) or 0) for h in heads]
        texts = [odfread.ws_text(h) for h in heads]
        for k, u in enumerate(order_in_doc):
            if u not in filled:
                continue
            tel = tels[k]
            bodies = [ch for ch in tel if ch.tag == odfread.q("text:index-body")]
            ctx.check(len(bodies) == 1, ("C20", "multi-fill", "index-body-count"), f"TOC #{u}: {len(bodies)} index bodies", case)
            ib = bodies[0]
            depth = specs[u]["outline"] or 10
            want = [f"{num} {texts[i]}" for i, num in outline_numbers(levels, depth)]
            got = [odfread.ws_text(p_) for p_ in ib if p_.tag == odfread.T_P]
            ctx.check(got == want, ("C20", "multi-fill", "entries"),
                      f"TOC #{u} (outline level {specs[u]['outline']}), heading levels {levels}: lists {got!r}, expected {want!r}", case)
            titles = [ch for ch in ib if ch.tag == odfread.q("text:index-title")]
            title = specs[u]["title"] if specs[u]["title"] is not None else "Table of Contents"  # the constructor's documented default
            if title:
                ctx.check(len(titles) == 1 and ib[0] is titles[0] and len(titles[0]) and odfread.ws_text(titles[0][0]) == title, ("C20", "multi-fill", "title"),
                          f"TOC #{u}: title {title!r} not kept first: {[odfread.ws_text(x) for x in titles]}", case)
            else:
                ctx.check(all(not odfread.ws_text(x) for x in titles), ("C20", "multi-fill", "title"),
                          f"TOC #{u} was given no title and shows {[odfread.ws_text(x) for x in titles]}", case)
    ctx.count("multi-toc")
    if len({sp["title"] for sp in specs}) > 1 and len(filled) > 1:
        ctx.nontrivial(case)
        ctx.count("multi-toc:distinct-titles-several-filled")


def replay(case, ctx):
    if "pair" in case:
        # two documents filled one after the other in the same process
        global _PREVIOUS
        _PREVIOUS = None
        for c_ in case["pair"]:
            try:
                run_case(c_, ctx)
            except Abandon:
                pass
        return
    try:
        run_multi(case, ctx) if "tocs" in case else run_case(case, ctx)
    except Abandon:
        pass


def run_shard(ctx):
    text = st.sampled_from(TEXTS)
    heading = st.fixed_dictionaries({"k": st.just("h"), "level": st.one_of(st.integers(1, 4), st.integers(1, 10), st.integers(1, 10), st.integers(9, 13)), "text": text,
                                     "span": st.one_of(st.none(), st.none(), st.sampled_from(["bold", " sp ", "x  y"])),
                                     "after": st.one_of(st.none(), st.sampled_from([" end", "  z"]))})
    para = st.fixed_dictionaries({"k": st.just("p"), "text": text})
    step = st.one_of(
        st.fixed_dictionaries({"k": st.sampled_from(["fill", "fill", "fill-arg", "fill-nostyle"])}),
        st.fixed_dictionaries({"k": st.just("edit"), "i": st.integers(0, 30), "t": st.integers(0, 30)}),
        st.fixed_dictionaries({"k": st.just("add"), "level": st.one_of(st.integers(1, 10), st.integers(1, 13)), "t": st.integers(0, 30)}),
        st.fixed_dictionaries({"k": st.just("remove"), "i": st.integers(0, 30)}),
        st.fixed_dictionaries({"k": st.just("level"), "i": st.integers(0, 30), "level": st.one_of(st.integers(1, 10), st.integers(1, 13))}),
        st.fixed_dictionaries({"k": st.just("outline"), "level": st.one_of(st.integers(0, 10), st.integers(0, 14))}),
        st.fixed_dictionaries({"k": st.just("title"), "t": st.integers(0, 30)}),
        st.fixed_dictionaries({"k": st.just("reload"), "pretty": st.booleans()}),
        st.fixed_dictionaries({"k": st.just("reload"), "pretty": st.just(True)}),
    )
    cases = st.fixed_dictionaries({
        "items": st.lists(st.one_of(heading, heading, para), max_size=25),
        "toc_pos": st.integers(0, 30), "outline": st.one_of(st.integers(0, 10), st.integers(0, 10), st.integers(9, 14)),
        "title": st.one_of(st.none(), st.just(""), st.sampled_from(["Table of Contents", "Sommaire  général"])),
        "steps": st.lists(step, min_size=1, max_size=6)})

    def mk():
        @given(cases)
        def t(case):
            ctx.ev()
            try:
                run_case(case, ctx)
                ctx.maybe_sample(case, 701)
            except Abandon:
                pass
        return t

    ctx.run_given(mk, ctx.budget(24000, 200000))

    tspec = st.fixed_dictionaries({"pos": st.integers(0, 12), "outline": st.one_of(st.integers(0, 10), st.integers(0, 3)),
                                   "title": st.one_of(st.none(), st.sampled_from(["Contents", "Chapters only", "Sommaire  général", "T2"]))})
    mcases = st.fixed_dictionaries({
        "items": st.lists(st.one_of(heading, heading, para), max_size=10),
        "tocs": st.lists(tspec, min_size=2, max_size=3),
        "order": st.lists(st.integers(0, 5), min_size=1, max_size=5),
        "reload": st.one_of(st.just(0), st.integers(1, 5))})

    def mk_multi():
        @given(mcases)
        def t(case):
            ctx.ev()
            try:
                run_multi(case, ctx)
                ctx.maybe_sample(case, 701)
            except Abandon:
                pass
        return t

    ctx.run_given(mk_multi, ctx.budget(4000, 50000), salt=2)
