"""C13 - styles land in the right container, stay unique by family+name, are found again."""
from __future__ import annotations

import io
from collections import Counter

from hypothesis import given, strategies as st

from lib import corpus, odfread
from lib.harness import Abandon

ID = "C13"
RULE = (
    "H over histories on the 4 templates and the style-rich samples: sequences (<= 8) of insert_style with a Style of every "
    "family of FAMILY_MAPPING (+ master-page, page-layout, font-face), from object or XML string, named/unnamed, automatic, "
    "default (only families documented for it), name collisions across families and containers; set_table_displayed; "
    "add_page_break_style (twice); delete_styles; merge_styles_from(another sample); save + reload. Oracle: an independent lxml "
    "index {(part, container, tag, family, name): count} of content.xml and styles.xml shows no key above the source document's "
    "baseline count (no duplicate), the inserted style (marked with a fingerprint attribute) sits in the container predicted by "
    "the documented placement rule, the returned name makes Document.get_style(family, name) return exactly that style, also "
    "after reload; names generated for unnamed automatic styles are new in their family; after merge_styles_from(b) the index is "
    "the union with b's definitions winning, and b's own serialisation is unchanged. Non-trivial = history with a same-name "
    "insertion (replace path), an unnamed automatic insertion, or a merge; distinct by case."
    ' Also: already-attached Style objects inserted again (from another document / another container); an insertion touches'
    ' styles carrying a display name (style:display-name, changed between two insertions under one family+name);'
    ' one place only (every other style unchanged); sheets sharing one table style and set_table_displayed on one of them; '
    'get_styles listings for str and bytes spellings of the family with both automatic flags.'
)
ASSUMPTIONS = [
    "placement rule = docstring of insert_style: named common -> styles.xml office:styles; automatic -> content.xml "
    "office:automatic-styles; default -> styles.xml office:styles as style:default-style; master-page -> office:master-styles; "
    "page-layout -> styles.xml office:automatic-styles; font-face -> content.xml font-face-decls (default: styles.xml)",
    "default=True only for the families the docstring lists; unnamed only with automatic=True",
]

STD = ["chart", "drawing-page", "graphic", "paragraph", "presentation", "ruby", "section", "table", "table-cell", "table-column", "table-row", "text"]
FALSE_FAMS = ["list", "number", "date", "time", "percentage", "currency", "boolean", "outline", "marker", "presentation-page-layout"]
DEFAULT_OK = ["paragraph", "text", "section", "table", "table-column", "table-row", "table-cell", "chart", "drawing-page", "graphic", "presentation", "ruby"]
NAMES = ["N1", "N2", "Standard", "odfdo_auto_1", "odfdo_auto_3", "odfdo_auto_x", "ta_0", "a b", "Heading_20_1", "odfdo_auto_2"]
FP = odfread.q("style:class")


def style_index(doc_bytes):
    """{(part, container, tag, family, name): [fingerprints]}"""
    out = {}
    for part, data in doc_bytes.items():
        root = odfread.parse(data)
        for cont in root:
            ctag = cont.tag.split("}")[1]
            if ctag not in ("styles", "automatic-styles", "master-styles", "font-face-decls"):
                continue
            for st_ in cont:
                if not isinstance(st_.tag, str):
                    continue
                name = st_.get(odfread.q("style:name")) or st_.get(odfread.q("draw:name"))
                key = (part, ctag, st_.tag.split("}")[1], st_.get(odfread.q("style:family")) or "", name)
                out.setdefault(key, []).append(st_.get(FP))
    return out


def parts_of(doc):
    return {"content": doc.content.serialize(), "styles": doc.styles.serialize()}


def predicted(family, named, automatic, default):
    if family == "master-page":
        return ("styles", "master-styles")
    if family == "font-face":
        return ("styles", "font-face-decls") if default else ("content", "font-face-decls")
    if family == "page-layout":
        return ("styles", "automatic-styles")
    if automatic:
        return ("content", "automatic-styles")
    return ("styles", "styles")


def open_source(src):
    from odfdo import Document

    if src["kind"] == "template":
        return Document(src["name"])
    return Document(io.BytesIO((corpus.samples_dir() / src["name"]).read_bytes()))


def run_case(case, ctx):
    from odfdo import Document, Style

    with ctx.guard(("C13", "open", "exception"), case):
        doc = open_source(case["source"])
        baseline = {k: len(v) for k, v in style_index(parts_of(doc)).items()}
    n = 0
    labels = set()
    inserted = []  # (family, returned name, fingerprint, default)

    def no_duplicates(where):
        idx = style_index(parts_of(doc))
        for k, fps in idx.items():
            if k[4] is None and k[2] != "default-style":
                continue
            ctx.check(len(fps) <= max(1, baseline.get(k, 0)), ("C13", where, "duplicate"),
                      f"{len(fps)} styles with key {k} after {where} (source had {baseline.get(k, 0)})", case)
        return idx

    for op in case["ops"]:
        k = op["k"]
        n += 1
        with ctx.guard(("C13", k, "exception"), case):
            if k == "insert":
                # histories concentrate on one family (case-level focus) so that same-family sequences are frequent
                family = case.get("focus") if (op.get("focused") and case.get("focus")) else op["family"]
                fp = f"FP{n}"
                automatic, default = op["mode"] == "automatic", op["mode"] == "default"
                if default and family not in DEFAULT_OK:
                    continue
                named = not (automatic and op["unnamed"])
                name = NAMES[op["name"] % len(NAMES)] if named else None
                try:
                    if family == "font-face":
                        style = Style("font-face", name=name or f"Font{n}", font_name=name or f"Font{n}")
                        named, name = True, name or f"Font{n}"
                    elif family in ("master-page", "page-layout"):
                        name = name or f"M{n}"
                        named = True
                        style = Style(family, name=name)
                    else:
                        style = Style(family, name=name) if named else Style(family)
                except (ValueError, TypeError):
                    ctx.count("style-ctor-rejected:" + family)
                    continue
                style.set_attribute("style:class", fp)
                if op.get("display") is not None and family in STD:
                    # the label shown by the desktop application: it is no part of the key (family + name)
                    style.set_attribute("style:display-name", ["Label A", "Label B", "Étiquette  C", ""][op["display"] % 4] or None)
                    labels.add("display-name-given")
                before = style_index(parts_of(doc))
                prior_names = {kk[4] for kk in before if kk[3] == family or (kk[2] == style.tag.split(":")[1] and not kk[3])}
                arg = style.serialize() if op["as_xml"] and family in STD else style
                if op.get("attached") and arg is style:
                    # the Style object already lives in a document (it was inserted there, or fetched with get_style): a
                    # second insert_style moves it
                    try:
                        if op["attached"] == "other":
                            Document("text").insert_style(style, automatic=automatic, default=default)
                        else:
                            doc.insert_style(style, automatic=not automatic and family in STD, default=False)
                            # that first insertion replaces a same-name style of its own container: no longer "ours"
                            inserted = [i for i in inserted if not (i[0] == family and i[1] == name)]
                        labels.add("attached-object:" + op["attached"])
                    except (ValueError, TypeError, AttributeError):
                        ctx.count("attach-rejected")
                    before = style_index(parts_of(doc))
                    if fp not in [f for fps in before.values() for f in fps]:
                        pass
                same_name_before = any(kk[4] == name and (kk[3] == family) for kk in before) if named else False
                ret = doc.insert_style(arg, automatic=automatic, default=default)
                if same_name_before:
                    labels.add("replace-path")
                if not named:
                    labels.add("unnamed-automatic")
                idx = no_duplicates("insert_style")
                part, cont = predicted(family, named, automatic, default)
                # an insertion touches one place only: every style of another container, and every style of another
                # family/name of the same container, is still there and unchanged
                for kk, fps in before.items():
                    if kk[4] is None and kk[2] != "default-style":
                        continue
                    same_slot = (kk[0], kk[1]) == (part, cont) and (kk[3] == family or not kk[3]) and (kk[4] == name or default or not named)
                    if same_slot or fp in fps:
                        continue
                    ctx.check(idx.get(kk) == fps, ("C13", "insert_style", "other-style-touched"),
                              f"inserting {family}/{name!r} (mode {op['mode']}, documented place {part}.xml office:{cont}) changed the style {kk}: "
                              f"{fps} -> {idx.get(kk)}", case)
                found = [(kk, fps) for kk, fps in idx.items() if fp in fps]
                ctx.check(len(found) == 1, ("C13", "insert_style", "not-inserted-once"),
                          f"style {fp} ({family}, mode {op['mode']}) found {len(found)} times", case)
                if found:
                    kk = found[0][0]
                    ctx.check((kk[0], kk[1]) == (part, cont), ("C13", "insert_style", "wrong-container", family),
                              f"{family} style (mode {op['mode']}) landed in {kk[0]}.xml office:{kk[1]}, documented place is {part}.xml office:{cont}", case)
                    if default:
                        ctx.check(kk[2] == "default-style" and kk[4] is None, ("C13", "insert_style", "default-shape"),
                                  f"default style stored as {kk[2]} named {kk[4]!r}", case)
                    elif named:
                        ctx.check(kk[4] == name and ret == name, ("C13", "insert_style", "name"),
                                  f"stored name {kk[4]!r}, returned {ret!r}, given {name!r}", case)
                    else:
                        ctx.check(ret is not None and ret == kk[4] and ret not in prior_names, ("C13", "insert_style", "automatic-name-collides"),
                                  f"generated automatic name {ret!r} (stored {kk[4]!r}); names already used in the family: {sorted(x for x in prior_names if x)[:12]}", case)
                # found again (ambiguous, hence not judged, when the same family+name also exists in another container)
                ltag = style.tag.split(":")[1]
                elsewhere = [kk for kk in idx if (kk[3] == family or (not kk[3] and kk[2] == ltag)) and kk[4] == ret
                             and (kk[0], kk[1]) != (part, cont) and kk[2] != "default-style"]
                if elsewhere and not default:
                    ctx.count("cross-container-name-collision")
                    inserted = [i for i in inserted if not (i[0] == family and i[1] == ret)]
                    continue
                got = doc.get_style(family) if default else doc.get_style(family, ret)
                ctx.check(got is not None and got.get_attribute_string("style:class") == fp, ("C13", "get_style", "not-found-again", family),
                          f"insert_style({family}, mode {op['mode']}) returned {ret!r} but get_style({family!r}, {ret!r}) gives "
                          f"{None if got is None else got.serialize()[:120]}", case)
                # listings: the family given as str or as bytes (both accepted) list the same styles, the new one included
                with ctx.guard(("C13", "get_styles", "exception", family), case):
                    for auto_flag in (False, True):
                        names_s = [(x.tag, x.name) for x in doc.get_styles(family, automatic=auto_flag)]
                        names_b = [(x.tag, x.name) for x in doc.get_styles(family.encode(), automatic=auto_flag)]
                        ctx.check(names_s == names_b, ("C13", "get_styles", "spelling-differs", family),
                                  f"get_styles({family!r}, automatic={auto_flag}) lists {len(names_s)} styles, get_styles({family.encode()!r}, ...) lists "
                                  f"{len(names_b)}: only str {sorted(set(names_s) - set(names_b))[:5]}", case)
                    if not default:
                        listed = [x.name for x in doc.get_styles(family)]
                        ctx.check(ret in listed, ("C13", "get_styles", "inserted-not-listed", family),
                                  f"get_styles({family!r}) does not list the style just inserted as {ret!r} (mode {op['mode']})", case)
                inserted = [i for i in inserted if not (i[0] == family and i[1] == ret and i[3] == default and
                                                        predicted(i[0], True, i[4], i[3]) == (part, cont))]
                inserted.append((family, ret, fp, default, automatic))
            elif k == "page_break":
                doc.add_page_break_style()
                doc.add_page_break_style()
                idx = no_duplicates("add_page_break_style")
                cnt = sum(len(v) for kk, v in idx.items() if kk[4] == "odfdopagebreak")
                ctx.check(cnt == 1 and doc.get_style("paragraph", "odfdopagebreak") is not None, ("C13", "add_page_break_style", "count"),
                          f"{cnt} odfdopagebreak styles", case)
            elif k == "table_displayed":
                from odfdo import Table

                if doc.get_type() != "spreadsheet":
                    continue
                if not doc.body.get_tables():
                    doc.body.append(Table("T1", width=1, height=1))
                if op.get("share"):
                    # several sheets sharing one table style (a duplicated sheet, or a style made by an earlier call)
                    while len(doc.body.get_tables()) < 3:
                        doc.body.append(Table(f"TS{len(doc.body.get_tables())}", width=1, height=1))
                    if op["share"] == "made":
                        doc.set_table_displayed(0, True)
                    tabs = doc.body.get_tables()
                    for t_ in tabs[1:3]:
                        t_.style = tabs[0].style
                    labels.add("shared-table-style")

                def displayed_map():
                    root = odfread.parse(doc.content.serialize())
                    sroot = odfread.parse(doc.styles.serialize())
                    out = []
                    for t_ in root.iter(odfread.T_TABLE):
                        if t_.getparent().tag == odfread.q("table:table-cell"):
                            continue
                        sn = t_.get(odfread.q("table:style-name"))
                        disp = "true"
                        for r_ in (root, sroot):
                            for st_ in r_.iter(odfread.q("style:style")):
                                if st_.get(odfread.q("style:name")) == sn and st_.get(odfread.q("style:family")) == "table":
                                    for tp in st_.iter(odfread.q("style:table-properties")):
                                        disp = tp.get(odfread.q("table:display"), "true")
                        out.append(disp == "true")
                    return out

                before_disp = displayed_map()
                which = op.get("which", 0) % max(len(before_disp), 1)
                doc.set_table_displayed(which, op["flag"])
                no_duplicates("set_table_displayed")
                ctx.check(doc.get_table_displayed(which) == op["flag"], ("C13", "set_table_displayed", "readback"),
                          f"get_table_displayed = {doc.get_table_displayed(which)}", case)
                after_disp = displayed_map()
                want_disp = [op["flag"] if i == which else d for i, d in enumerate(before_disp)]
                ctx.check(after_disp == want_disp, ("C13", "set_table_displayed", "other-tables-changed"),
                          f"set_table_displayed({which}, {op['flag']}): display flags of the sheets {before_disp} -> {after_disp}, expected {want_disp}", case)
                inserted = [i for i in inserted if i[0] != "table" or True]
            elif k == "delete_styles":
                doc.delete_styles()
                no_duplicates("delete_styles")
                inserted = [i for i in inserted if i[3]]  # only default styles are documented to survive
            elif k == "merge":
                names = [p.name for p in corpus.sample_files() if p.suffix == ".odt" and p.stat().st_size < 40000]
                other = Document(io.BytesIO((corpus.samples_dir() / names[op["i"] % len(names)]).read_bytes()))
                other.insert_style(Style("paragraph", name="N1", bold=True))
                other.get_style("paragraph", "N1").set_attribute("style:class", "OTHER")
                # the other document has generated automatic names of its own (same scheme: odfdo_auto_N)
                for _ in range(op.get("autos", 0)):
                    fam_ = case.get("focus") or "paragraph"
                    try:
                        other.insert_style(Style(fam_), automatic=True)
                    except (ValueError, TypeError):
                        break
                if op.get("autos"):
                    labels.add("merge-brings-generated-names")
                ob = parts_of(other)
                oidx = style_index(ob)
                before = style_index(parts_of(doc))
                doc.merge_styles_from(other)
                labels.add("merge")
                after = no_duplicates("merge_styles_from")
                ctx.check(parts_of(other) == ob, ("C13", "merge_styles_from", "source-modified"),
                          "merge_styles_from changed the document the styles were taken from", case)
                for kk, fps in oidx.items():
                    if kk[4] is None and kk[2] != "default-style":
                        continue
                    ctx.check(kk in after, ("C13", "merge_styles_from", "style-missing"), f"style {kk} of the other document is missing after the merge", case)
                    if kk in after and fps[0] == "OTHER":
                        ctx.check(after[kk] == ["OTHER"], ("C13", "merge_styles_from", "other-does-not-win"),
                                  f"key {kk}: fingerprints {after[kk]} (the other document's definition must win)", case)
                for kk in before:
                    if kk[4] is None and kk[2] != "default-style":
                        continue
                    gone = kk not in after and not any(o[0] == kk[0] and o[3] == kk[3] and o[4] == kk[4] for o in oidx)
                    ctx.check(not gone, ("C13", "merge_styles_from", "own-style-lost"), f"own style {kk} vanished in the merge", case)
                # the other document's definitions win: whatever shares a name with one of them is no longer "ours"
                other_names = {o[4] for o in oidx}
                inserted = [i for i in inserted if i[1] not in other_names and not i[3]]
            elif k == "reload":
                buf = io.BytesIO()
                doc.save(buf)
                buf.seek(0)
                doc = Document(buf)
                no_duplicates("reload")
                for family, ret, fp, default, _auto in inserted:
                    got = doc.get_style(family) if default else doc.get_style(family, ret)
                    ctx.check(got is not None and got.get_attribute_string("style:class") == fp, ("C13", "get_style", "not-found-after-reload", family),
                              f"style {family}/{ret!r} ({fp}) is not found after save+reload", case)
    for lab in labels:
        ctx.count("case:" + lab)
    if labels:
        ctx.nontrivial(case)


def replay(case, ctx):
    try:
        run_case(case, ctx)
    except Abandon:
        pass


def run_shard(ctx):
    srcs = [{"kind": "template", "name": t} for t in corpus.TEMPLATES]
    srcs += [{"kind": "sample", "name": n} for n in ("lpod_styles.odt", "example.odt", "styled_table.ods", "example.odp", "base_text.odt",
                                                      "simple_table.ods", "md_style.odt", "list.odt") if (corpus.samples_dir() / n).exists()]
    fam = st.one_of(st.sampled_from(STD), st.sampled_from(STD + FALSE_FAMS + ["master-page", "page-layout", "font-face"]))
    op = st.one_of(
        st.fixed_dictionaries({"k": st.just("insert"), "family": fam, "mode": st.sampled_from(["common", "common", "automatic", "automatic", "default"]),
                               "unnamed": st.booleans(), "name": st.integers(0, 20), "as_xml": st.booleans(), "focused": st.booleans()}),
        st.fixed_dictionaries({"k": st.just("insert"), "family": fam, "mode": st.just("automatic"), "unnamed": st.booleans(),
                               "name": st.sampled_from([3, 9, 4]), "as_xml": st.just(False), "focused": st.just(True)}),
        st.fixed_dictionaries({"k": st.just("insert"), "family": fam, "mode": st.sampled_from(["common", "automatic"]),
                               "unnamed": st.booleans(), "name": st.integers(0, 2), "as_xml": st.booleans()}),
        st.fixed_dictionaries({"k": st.just("insert"), "family": fam, "mode": st.sampled_from(["common", "common", "automatic", "default"]),
                               "unnamed": st.just(False), "name": st.integers(0, 4), "as_xml": st.just(False), "focused": st.booleans(),
                               "attached": st.sampled_from(["other", "other", "same"])}),
        st.fixed_dictionaries({"k": st.just("insert"), "family": fam, "mode": st.sampled_from(["common", "common", "automatic"]),
                               "unnamed": st.just(False), "name": st.integers(0, 2), "as_xml": st.booleans(), "focused": st.just(True),
                               "display": st.integers(0, 3)}),
        st.fixed_dictionaries({"k": st.just("page_break")}),
        st.fixed_dictionaries({"k": st.just("table_displayed"), "flag": st.booleans()}),
        st.fixed_dictionaries({"k": st.just("table_displayed"), "flag": st.booleans(), "share": st.sampled_from(["made", "made", "as-is"]), "which": st.integers(0, 2)}),
        st.fixed_dictionaries({"k": st.just("delete_styles")}),
        st.fixed_dictionaries({"k": st.just("merge"), "i": st.integers(0, 20)}),
        st.fixed_dictionaries({"k": st.just("merge"), "i": st.integers(0, 20), "autos": st.integers(1, 4)}),
        st.fixed_dictionaries({"k": st.just("reload")}),
    )
    cases = st.fixed_dictionaries({"source": st.sampled_from(srcs), "ops": st.lists(op, min_size=1, max_size=8),
                                   "focus": st.sampled_from(["paragraph", "text", "table-cell", "graphic", "list", "number"])})

    def mk():
        @given(cases)
        def t(case):
            ctx.ev()
            for o in case["ops"]:
                ctx.count("op:" + o["k"])
            try:
                run_case(case, ctx)
                ctx.maybe_sample(case, 499)
            except Abandon:
                pass
        return t

    ctx.run_given(mk, ctx.budget(6000, 70000))
