"""C09 - inserting or removing markup never alters the paragraph text around it."""
from __future__ import annotations

import re

from hypothesis import given, strategies as st

from lib import odfread, paragen
from lib.harness import Abandon

ID = "C09"
RULE = (
    "H: a paragraph or heading assembled through the API from pieces (text with single/multiple blanks, TAB, LF; nested "
    "spans; links; existing bookmarks/reference marks; footnotes), then 1-4 insertions of mixed kinds - set_span / set_link by "
    "regex and by offset/length (in range, at node boundaries, 0, end, beyond), set_bookmark / set_reference_mark (position "
    "int, 2-tuple, before/after/content regex with match index, role), insert_note(after=regex), insert_annotation "
    "(before/after/content/position tuple) - with regexes derived from the actual text nodes (never empty-matching), then "
    "removals (remove_spans, remove_links, remove_span/remove_link of one element, delete of an inline element or mark). "
    "Oracle on the lxml tree of the serialisation: plain projection P (ODF white-space aware, own content only) unchanged by "
    "every insertion; wrappers created = non-overlapping matches per text node and wrap exactly the matched/designated "
    "substring; empty marks sit at the designated offset of the raw text R; content/tuple forms equal the documented pair of "
    "calls; no match => serialisation byte-identical (with or without exception); removals keep every character outside the "
    "removed element. Non-trivial = target text node is a tail or produced by an earlier insertion, or offset on a node "
    "boundary; distinct by (layout, ops)."
    ' Also the kind refmark-end: a point reference mark, set_reference_mark_end, then a second call that moves the end (one'
    ' start, one end, no point mark, at the designated offsets, text unchanged).'
)
ASSUMPTIONS = [
    "lib/odfread.plain_projection / raw_text are correct readers (lxml)",
    "R = concatenation of descendant text nodes is the addressing space documented for offsets and regexes (one text node at a time)",
    "fields that add their own text (insert_reference, insert_variable) are outside 'markup' in the property",
]


def xml_of(e):
    return odfread.parse_fragment(e.serialize())


def P(e):
    return odfread.plain_projection(xml_of(e))


def R(e):
    return odfread.raw_text(xml_of(e))


def nodes_of(e):
    return paragen.text_nodes(xml_of(e))


def offset_of(root, el):
    """number of raw text characters before element el in document order"""
    n = 0
    for node in root.iter():
        if node is el:
            return n
        if node.text and node is not el:
            n += len(node.text)
        # tails of completed elements are added when we pass them: handled below
    return None


def char_offset(root, target):
    """R-offset of the start tag of target: count text of all nodes preceding it in document order."""
    count = 0

    def walk(e):
        nonlocal count
        if e is target:
            return True
        if e.text:
            count += len(e.text)
        for ch in e:
            if walk(ch):
                return True
            if ch.tail:
                count += len(ch.tail)
        return False

    return count if walk(root) else None


def linear(root, wrap_pred=None, node_marks=None):
    """Interpreted character sequence of the tree (text nodes, text:s as spaces, tab, line-break) with '[' ']' around
    elements satisfying wrap_pred, or - for the expected side - around the (start, end) ranges of node_marks[i] inside the
    i-th text node (same order as descendant::text())."""
    out = []
    idx = [0]

    def emit_text(t):
        if not t:
            return
        i = idx[0]
        idx[0] += 1
        marks = (node_marks or {}).get(i)
        if not marks:
            out.append(t)
            return
        pos = 0
        for a, b in sorted(marks):
            out.append(t[pos:a] + "[" + t[a:b] + "]")
            pos = b
        out.append(t[pos:])

    def walk(e):
        w = wrap_pred is not None and wrap_pred(e)
        if w:
            out.append("[")
        if e.tag == odfread.T_S:
            c = e.get(odfread.q("text:c"))
            out.append(" " * (int(c) if c else 1))
        elif e.tag == odfread.T_TAB:
            out.append("\t")
        elif e.tag == odfread.T_LB:
            out.append("\n")
        emit_text(e.text)
        for ch in e:
            if isinstance(ch.tag, str):
                walk(ch)
            emit_text(ch.tail)
        if w:
            out.append("]")

    walk(root)
    return "".join(out)


def sq(text):
    return re.sub(r"[ \t\n]+", " ", text)


def find_matches(nodes, pat):
    """[(node index, start, end, absolute start, absolute end)] per text node, non overlapping"""
    c = re.compile(pat)
    out = []
    base = 0
    for i, n in enumerate(nodes):
        for m in c.finditer(n):
            out.append((i, m.start(), m.end(), base + m.start(), base + m.end()))
        base += len(n)
    return out


def apply_insertion(ctx, e, op, idx, case, labels):
    from odfdo import Element

    kind = op["kind"]
    before_xml = e.serialize()
    root0 = xml_of(e)
    P0 = odfread.plain_projection(root0)
    R0 = odfread.raw_text(root0)
    nodes = [n for n in paragen.text_nodes(root0) if n]
    runs = odfread.text_runs(root0)
    tag = f"M{idx}"
    pat = paragen.make_pattern(op["pat"], nodes) if op.get("pat") else None
    if op.get("pat") and pat is None:
        return
    sig = ("C09", kind)

    def unchanged_or_raises(fn):
        try:
            fn()
        except Exception:
            ctx.check(e.serialize() == before_xml, sig + ("partial-modification-on-error",),
                      f"{kind} raised but the paragraph changed: {before_xml} -> {e.serialize()}", case)
            return "raised"
        return "ok"

    def nt_for_abs(a):
        # non-trivial: the addressed run is a tail, or the offset is on a node boundary
        base = 0
        for (_owner, where, s) in runs:
            if base <= a <= base + len(s):
                if where == "tail" or a in (base, base + len(s)):
                    labels.add("tail-or-boundary")
                return
            base += len(s)

    if idx > 0:
        labels.add("second-insertion")

    if kind in ("span-regex", "link-regex"):
        matches = find_matches(nodes, pat)
        for m in matches:
            nt_for_abs(m[3])
        if kind == "span-regex":
            res = unchanged_or_raises(lambda: e.set_span(tag, regex=pat))
        else:
            res = unchanged_or_raises(lambda: e.set_link("http://x/" + tag, regex=pat))
        ctx.check(res == "ok", sig + ("exception",), f"regex {pat!r} on nodes {nodes!r} raised", case)
        root1 = xml_of(e)
        if kind == "span-regex":
            new = [el for el in root1.iter(odfread.q("text:span")) if el.get(odfread.q("text:style-name")) == tag]
        else:
            new = [el for el in root1.iter(odfread.q("text:a")) if el.get(odfread.q("xlink:href")) == "http://x/" + tag]
        got = [odfread.ws_text(el) if kind == "span-regex" else "".join(el.itertext()) for el in new]
        want = [nodes[m[0]][m[1]:m[2]] for m in matches]
        if not matches:
            ctx.check(e.serialize() == before_xml, sig + ("no-match-changed",), f"regex {pat!r} matches nothing but the paragraph changed", case)
        ctx.check(got == want, sig + ("wrapped-text",),
                  f"regex {pat!r} over text nodes {nodes!r}: wrappers hold {got!r}, matches are {want!r}", case)
        marks = {}
        nz = [i for i, n in enumerate(nodes)]
        for m in matches:
            marks.setdefault(m[0], []).append((m[1], m[2]))
        new_ids = {id(x) for x in new}
        want_lin = linear(root0, None, marks)
        got_lin = linear(root1, lambda el: id(el) in new_ids)
        ctx.check(got_lin == want_lin, sig + ("wrapped-position",),
                  f"regex {pat!r}: text with wrappers marked is {got_lin!r}, expected {want_lin!r}", case)
    elif kind in ("span-offset", "link-offset"):
        total = len(R0)
        off = {"in": op["o"] % (total + 1) if total else 0, "end": total, "beyond": total + 1 + op["o"] % 3,
               "boundary": 0}[op["ocls"]]
        if op["ocls"] == "boundary" and nodes:
            cuts = [0]
            for n in nodes:
                cuts.append(cuts[-1] + len(n))
            off = cuts[op["o"] % len(cuts)]
        length = op["len"]
        nt_for_abs(off)
        if kind == "span-offset":
            res = unchanged_or_raises(lambda: e.set_span(tag, offset=off, length=length))
        else:
            res = unchanged_or_raises(lambda: e.set_link("http://x/" + tag, offset=off, length=length))
        ctx.check(res == "ok", sig + ("exception",), f"offset {off} length {length} raised", case)
        # designated substring: the text node containing offset, cut at its end
        base = 0
        want = None
        for n in nodes:
            if len(n) + base <= off:
                base += len(n)
                continue
            st_ = off - base
            want = n[st_:st_ + length] if length > 0 else n[st_:]
            break
        root1 = xml_of(e)
        if kind == "span-offset":
            new = [el for el in root1.iter(odfread.q("text:span")) if el.get(odfread.q("text:style-name")) == tag]
            got = [odfread.ws_text(el) for el in new]
        else:
            new = [el for el in root1.iter(odfread.q("text:a")) if el.get(odfread.q("xlink:href")) == "http://x/" + tag]
            got = ["".join(el.itertext()) for el in new]
        if want is None:
            ctx.check(e.serialize() == before_xml, sig + ("beyond-changed",), f"offset {off} beyond the text ({total}) changed the paragraph", case)
        else:
            ctx.check(got == [want], sig + ("wrapped-text",),
                      f"offset {off} length {length} over nodes {nodes!r}: wrapper holds {got!r}, designated {want!r}", case)
            base2 = 0
            marks = {}
            for i2, n2 in enumerate(nodes):
                if len(n2) + base2 <= off:
                    base2 += len(n2)
                    continue
                st2 = off - base2
                marks[i2] = [(st2, st2 + length if length > 0 else len(n2))]
                marks[i2] = [(st2, min(marks[i2][0][1], len(n2)))]
                break
            new_ids = {id(x) for x in new}
            want_lin = linear(root0, None, marks)
            got_lin = linear(root1, lambda el: id(el) in new_ids)
            ctx.check(got_lin == want_lin, sig + ("wrapped-position",),
                      f"offset {off} length {length}: text with the wrapper marked is {got_lin!r}, expected {want_lin!r}", case)
    elif kind in ("bookmark", "refmark"):
        form = op["form"]
        name = tag
        qn_point = "text:bookmark" if kind == "bookmark" else "text:reference-mark"

        def call(target, **kw):
            if kind == "bookmark":
                return target.set_bookmark(name, **kw)
            return target.set_reference_mark(name, **kw)

        total = len(R0)
        if form == "pos":
            pos = op["o"] % (total + 2)
            nt_for_abs(min(pos, total))
            res = unchanged_or_raises(lambda: call(e, position=pos))
            expect = pos if pos <= total else None
            marks = [(qn_point, expect)]
        elif form in ("before", "after"):
            matches = find_matches(nodes, pat)
            k = op["k"] % (len(matches) + 1) if matches else 0
            res = unchanged_or_raises(lambda: call(e, **{form: pat}, position=k))
            if k < len(matches):
                expect = matches[k][3] if form == "before" else matches[k][4]
                nt_for_abs(expect)
            else:
                expect = None
            marks = [(qn_point, expect)]
        elif form == "tuple":
            a = op["o"] % (total + 1)
            b = a + op["len"] % (total - a + 1)
            twin = e.clone
            res = unchanged_or_raises(lambda: call(e, position=(a, b)))
            if kind == "bookmark" and res == "ok":
                twin.set_bookmark(name, position=a, role="start")
                twin.set_bookmark(name, position=b, role="end")
                ctx.check(twin.serialize() == e.serialize(), sig + ("tuple-form-differs",),
                          f"position=({a},{b}) gives {e.serialize()}, the documented pair of calls gives {twin.serialize()}", case)
            marks = [(qn_point + "-start", a), (qn_point + "-end", b)]
            expect = a
        else:  # content
            matches = find_matches(nodes, pat)
            k = op["k"] % (len(matches) + 1) if matches else 0
            twin = e.clone
            res = unchanged_or_raises(lambda: call(e, content=pat, position=k))
            if k < len(matches):
                if kind == "bookmark" and res == "ok":
                    twin.set_bookmark(name, before=pat, position=k, role="start")
                    twin.set_bookmark(name, after=pat, position=k, role="end")
                    ctx.check(twin.serialize() == e.serialize(), sig + ("content-form-differs",),
                              f"content={pat!r} position={k} gives {e.serialize()}, the documented pair of calls gives {twin.serialize()}", case)
                marks = [(qn_point + "-start", matches[k][3])]
                expect = matches[k][3]
            else:
                marks = [(qn_point + "-start", None)]
                expect = None
        if expect is None:
            ctx.check(e.serialize() == before_xml or res == "raised", sig + ("no-target-changed",),
                      f"{kind} {form}: nothing designated but the paragraph changed to {e.serialize()}", case)
            if res == "ok" and e.serialize() != before_xml:
                pass
        else:
            ctx.check(res == "ok", sig + ("exception",), f"{kind} {form} raised on a valid target (nodes {nodes!r}, pattern {pat!r})", case)
            root1 = xml_of(e)
            for qn, where in marks:
                if where is None:
                    continue
                found = [el for el in root1.iter(odfread.q(qn)) if el.get(odfread.q("text:name")) == name]
                ctx.check(len(found) == 1, sig + ("mark-count",), f"{len(found)} <{qn}> named {name} after {kind} {form}", case)
                if found:
                    at = char_offset(root1, found[0])
                    ctx.check(at == where, sig + ("mark-position",),
                              f"{kind} {form} (pattern {pat!r}, nodes {nodes!r}): <{qn}> sits at raw offset {at}, designated {where}", case)
    elif kind == "refmark-end":
        # a point mark at a, turned into a range ending at b, whose end is then moved to c (set_reference_mark_end: "Insert/move")
        total = len(R0)
        a = op["o"] % (total + 1)
        b = a + op["len"] % (total - a + 1)
        c = a + op["len2"] % (total - a + 1)
        nt_for_abs(b)
        if b < total:
            labels.add("tail-or-boundary")

        def do():
            mark = e.set_reference_mark(tag, position=a)
            e.set_reference_mark_end(mark, position=b)
            if op.get("move", True):
                e.set_reference_mark_end(mark, position=c)

        res = unchanged_or_raises(do)
        ctx.check(res == "ok", sig + ("exception",), f"set_reference_mark / set_reference_mark_end ({a},{b},{c}) raised", case)
        root1 = xml_of(e)
        end_at = c if op.get("move", True) else b
        for qn, where, n_want in (("text:reference-mark-start", a, 1), ("text:reference-mark-end", end_at, 1), ("text:reference-mark", None, 0)):
            found = [el for el in root1.iter(odfread.q(qn)) if el.get(odfread.q("text:name")) == tag]
            ctx.check(len(found) == n_want, sig + ("mark-count",), f"{len(found)} <{qn}> named {tag} after start at {a}, end at {b}, end moved to {c}", case)
            if found and where is not None:
                at = char_offset(root1, found[0])
                ctx.check(at == where, sig + ("mark-position",), f"<{qn}> sits at raw offset {at}, designated {where} (start {a}, end {b} moved to {c})", case)
    elif kind == "note":
        matches = find_matches(nodes, pat)
        res = unchanged_or_raises(lambda: e.insert_note(after=pat, note_id=tag, citation="9", body="note body"))
        if matches:
            ctx.check(res == "ok", sig + ("exception",), f"insert_note(after={pat!r}) raised", case)
            root1 = xml_of(e)
            found = [el for el in root1.iter(odfread.q("text:note")) if el.get(odfread.q("text:id")) == tag]
            ctx.check(len(found) == 1, sig + ("count",), f"{len(found)} notes inserted", case)
            if found:
                ctx.check(char_offset(root1, found[0]) == matches[0][4], sig + ("position",),
                          f"note at {char_offset(root1, found[0])}, first match of {pat!r} ends at {matches[0][4]}", case)
        else:
            ctx.check(e.serialize() == before_xml, sig + ("no-match-changed",), "no match but the paragraph changed", case)
    elif kind == "annotation":
        form = op["form"]
        total = len(R0)
        if form == "tuple":
            a = op["o"] % (total + 1)
            b = a + op["len"] % (total - a + 1)
            res = unchanged_or_raises(lambda: e.insert_annotation(position=(a, b), body=f"annot{idx}x", creator="me"))
            expect = [("office:annotation", a), ("office:annotation-end", b)]
        else:
            matches = find_matches(nodes, pat)
            k = op["k"] % (len(matches) + 1) if matches else 0
            res = unchanged_or_raises(lambda: e.insert_annotation(**{form: pat}, position=k, body=f"annot{idx}x", creator="me"))
            if k < len(matches):
                if form == "before":
                    expect = [("office:annotation", matches[k][3])]
                elif form == "after":
                    expect = [("office:annotation", matches[k][4])]
                else:
                    expect = [("office:annotation", matches[k][3])]
            else:
                expect = None
        if expect is None:
            ctx.check(e.serialize() == before_xml or res == "raised", sig + ("no-target-changed",), "nothing designated but changed", case)
        else:
            ctx.check(res == "ok", sig + ("exception",), f"insert_annotation {form} raised", case)
            root1 = xml_of(e)
            mine = [a for a in root1.iter(odfread.q("office:annotation")) if f"annot{idx}x" in "".join(a.itertext())
                    and not any(f"annot{idx}x" in "".join(d.itertext()) for d in a.iter(odfread.q("office:annotation")) if d is not a)]
            ctx.check(len(mine) == 1, sig + ("missing",), f"{len(mine)} new annotations found", case)
            if mine:
                aname = mine[0].get(odfread.q("office:name"))
                # offsets in the addressing space of the call: the new annotation's own text does not count
                for d in mine[0].iter():
                    if d is not mine[0]:
                        d.text = None
                        d.tail = None
                mine[0].text = None
                for qn, where in expect:
                    if qn == "office:annotation":
                        target = mine[0]
                    else:
                        ends = [x for x in root1.iter(odfread.q(qn)) if x.get(odfread.q("office:name")) == aname]
                        ctx.check(len(ends) == 1, sig + ("missing-end",), f"{len(ends)} end tags for {aname}", case)
                        if not ends:
                            continue
                        target = ends[0]
                        inside = any(anc is mine[0] for anc in target.iterancestors())
                        ctx.check(not inside, sig + ("end-inside-annotation",), "annotation-end placed inside the body of its own annotation", case)
                    at = char_offset(root1, target)
                    ctx.check(at == where, sig + ("position",), f"<{qn}> at raw offset {at}, designated {where}", case)
    # (1) the readable text never changes
    if e.serialize() != before_xml:
        P1 = P(e)
        ctx.check(P1 == P0, ("C09", kind, "text-changed"),
                  f"{kind} changed the readable text {P0!r} -> {P1!r}\n before {before_xml}\n after  {e.serialize()}", case)


def _without_annotations(root, keep):
    """Copy-free helper: blank the text inside annotations so raw offsets address the main text."""
    for a in root.iter(odfread.q("office:annotation")):
        for d in a.iter():
            if d is not a:
                d.text = None
                d.tail = None
        a.text = None
    return root


def apply_removal(ctx, e, op, case, labels):
    kind = op["kind"]
    root0 = xml_of(e)
    R0 = odfread.raw_text(root0)
    before_xml = e.serialize()
    sig = ("C09", kind)
    with ctx.guard(sig + ("exception",), case):
        if kind in ("remove_spans", "remove_links"):
            out = e.remove_spans(keep_heading=False) if kind == "remove_spans" else e.remove_links()
            tagq = "text:span" if kind == "remove_spans" else "text:a"
            P0 = odfread.plain_projection(root0)
            for who, el in (("returned", out), ("original", e)):
                r = R(el)
                # raw runs of blanks may be re-normalised: characters are compared modulo ODF blank collapsing
                ctx.check(sq(r) == sq(R0) and P(el) == P0, sig + ("text-lost", who),
                          f"{kind}: {who} element reads {r!r}, was {R0!r}\n{before_xml}\n{el.serialize()}", case)
            left = list(xml_of(out).iter(odfread.q(tagq)))
            ctx.check(not left, sig + ("not-removed",), f"{len(left)} <{tagq}> left in the result", case)
        elif kind in ("remove_span", "remove_link"):
            tagq = "text:span" if kind == "remove_span" else "text:a"
            els = e.get_elements("descendant::" + tagq)
            if not els:
                return
            target = els[op["i"] % len(els)]
            out = e.remove_span(target) if kind == "remove_span" else e.remove_link(target)
            r = R(out)
            ctx.check(sq(r) == sq(R0) and P(out) == odfread.plain_projection(root0), sig + ("text-lost",),
                      f"{kind}: result reads {r!r}, was {R0!r}\n{before_xml}\n{out.serialize()}", case)
            n0 = len(list(root0.iter(odfread.q(tagq))))
            n1 = len(list(xml_of(out).iter(odfread.q(tagq))))
            ctx.check(n1 == n0 - 1, sig + ("count",), f"{n0} -> {n1} <{tagq}>", case)
        else:  # delete of an inline element or mark
            cands = e.get_elements("descendant::text:span|descendant::text:a|descendant::text:bookmark|descendant::text:bookmark-start"
                                   "|descendant::text:bookmark-end|descendant::text:reference-mark|descendant::text:note"
                                   "|descendant::office:annotation|descendant::text:s|descendant::text:tab")
            if not cands:
                return
            target = cands[op["i"] % len(cands)]
            troot = xml_of(e)
            # locate the same element in the lxml copy by document order
            order = [x for x in troot.iter() if x.tag in {odfread.q(t) for t in (
                "text:span", "text:a", "text:bookmark", "text:bookmark-start", "text:bookmark-end", "text:reference-mark", "text:note",
                "office:annotation", "text:s", "text:tab")}]
            twin = order[op["i"] % len(cands)] if len(order) == len(cands) else None
            if twin is None:
                return
            start = char_offset(troot, twin)
            inner = "".join(twin.itertext())
            expected = R0[:start] + R0[start + len(inner):]
            if twin.tail:
                labels.add("delete-with-tail")
            if op.get("self", True):
                target.delete()
            else:
                target.parent.delete(target)
            r = R(e)
            ctx.check(r == expected, sig + ("text-lost",),
                      f"delete of <{twin.tag.split('}')[1]}> (inner {inner!r}, tail {twin.tail!r}): text {R0!r} -> {r!r}, expected {expected!r}", case)


def run_case(case, ctx):
    labels = set()
    with ctx.guard(("C09", "build", "exception"), case):
        e = paragen.build_paragraph(case["layout"], case.get("kind", "p"))
    for i, op in enumerate(case["ops"]):
        with ctx.guard(("C09", op["kind"], "harness-or-api-exception"), case):
            apply_insertion(ctx, e, op, i, case, labels)
    for op in case.get("removals", []):
        apply_removal(ctx, e, op, case, labels)
    for lab in labels:
        ctx.count("case:" + lab)
    if labels & {"tail-or-boundary", "second-insertion", "delete-with-tail"}:
        ctx.nontrivial(case)


def replay(case, ctx):
    try:
        run_case(case, ctx)
    except Abandon:
        pass


def st_ops():
    pat = paragen.st_pattern()
    o = st.integers(0, 60)
    ocls = st.sampled_from(["in", "in", "end", "beyond", "boundary", "boundary"])
    ins = st.one_of(
        st.fixed_dictionaries({"kind": st.sampled_from(["span-regex", "link-regex"]), "pat": pat}),
        st.fixed_dictionaries({"kind": st.sampled_from(["span-offset", "link-offset"]), "o": o, "ocls": ocls, "len": st.integers(0, 5)}),
        st.fixed_dictionaries({"kind": st.sampled_from(["bookmark", "refmark"]), "form": st.just("pos"), "o": o}),
        st.fixed_dictionaries({"kind": st.sampled_from(["bookmark", "refmark"]), "form": st.sampled_from(["before", "after", "content"]),
                               "pat": pat, "k": st.integers(0, 4)}),
        st.fixed_dictionaries({"kind": st.sampled_from(["bookmark", "refmark"]), "form": st.just("tuple"), "o": o, "len": st.integers(0, 9)}),
        st.fixed_dictionaries({"kind": st.just("refmark-end"), "o": o, "len": st.integers(0, 9), "len2": st.integers(0, 12), "move": st.sampled_from([True, True, False])}),
        st.fixed_dictionaries({"kind": st.just("note"), "pat": pat}),
        st.fixed_dictionaries({"kind": st.just("annotation"), "form": st.sampled_from(["before", "after", "content"]), "pat": pat,
                               "k": st.integers(0, 3)}),
        st.fixed_dictionaries({"kind": st.just("annotation"), "form": st.just("tuple"), "o": o, "len": st.integers(0, 9)}),
    )
    rem = st.one_of(
        st.fixed_dictionaries({"kind": st.sampled_from(["remove_spans", "remove_links"])}),
        st.fixed_dictionaries({"kind": st.sampled_from(["remove_span", "remove_link"]), "i": st.integers(0, 9)}),
        st.fixed_dictionaries({"kind": st.just("delete"), "i": st.integers(0, 20), "self": st.booleans()}),
    )
    return st.fixed_dictionaries({"layout": paragen.st_layout(), "kind": st.sampled_from(["p", "p", "h"]),
                                  "ops": st.lists(ins, min_size=1, max_size=4), "removals": st.lists(rem, max_size=2)})


def run_shard(ctx):
    def mk():
        @given(st_ops())
        def t(case):
            ctx.ev()
            for op in case["ops"]:
                ctx.count("op:" + op["kind"] + ":" + op.get("form", ""))
            try:
                run_case(case, ctx)
                ctx.maybe_sample(case, 997)
            except Abandon:
                pass
        return t

    ctx.run_given(mk, ctx.budget(48000, 500000))
