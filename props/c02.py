"""C02 - what a table answers in memory is what its own XML says when parsed afresh."""
from lib import corpus
from lib.harness import Abandon
from lib.tablemachine import make_machine, run_history

ID = "C02"
RULE = (
    "Same state machine as C01 with cache-warming reads (get_row, get_row(clone=False), get_cell, get_value, traverse, "
    "get_column, rows, cells, get_column_cells, columns) weighted up so that they fire before mutations. After every step, "
    "three-way comparison: (1) public-API snapshot of the live object (size, typed value matrix, every row's width/cells/"
    "styles, column styles, column values), (2) the same snapshot of Element.from_tag(table.serialize()), (3) expansion of "
    "that XML by lib/odfread.expand_table (lxml only); every 5th step also after Document.save(BytesIO) + reload. "
    "Evaluations = machine steps. Non-trivial history = a cache-filling read immediately preceded a mutation; distinct by "
    "(initial spec, op list)."
    ' Composite rules line up the rare sequences: strip_cycle (cache-filling read, rstrip/optimize_width, regrow, edit), li'
    've_row (Row-level reads incl. just past the row end, rstrip and in-range edits on get_row(clone=False), then a table-l'
    'evel write at the row end and a read by coordinates), kept Row objects re-used.'
)
ASSUMPTIONS = [
    "lxml parses what odfdo serialises; lib/odfread.expand_table is a correct reader of table:table (columns/rows under "
    "header/rows containers, repeats multiplied, typed attributes decoded with Decimal/fromisoformat/own duration regex)",
    "string cells without office:string-value (written by office suites) are compared on type and emptiness only",
]


def run_shard(ctx):
    M = make_machine(ctx, "C02", corpus.table_specs(), warm_weight=3)
    ctx.run_machine(M, ctx.budget(16 * 55, 16 * 160), 25 if not ctx.thorough else 50, replay=replay_raise)


def replay_raise(case, ctx):
    run_history(case["initial"], case["ops"], "C02", ctx)


def replay(case, ctx):
    try:
        replay_raise(case, ctx)
    except Abandon:
        pass
