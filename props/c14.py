"""C14 - anything is found again under the name it was given, whatever the name contains."""
from __future__ import annotations

import io

from hypothesis import given, strategies as st

from lib import odfread
from lib.harness import Abandon

ID = "C14"
ALPHA = list("ab Z9_.-") + ['"', "'", "[", "]", "@", "|", "/", "&", "<", ">", "=", "(", ")", "*", ":", "é", "中", " ", "#", "\\", "{", "}", "$", ","]
FRAGMENTS = ['x"] | //*[@a="', "' or '1'='1", '" or "1"="1', "a\"b'c", "true", "false", "a&amp;b", "]]>", "concat(", "text()", "//", "..", "1", "",
             "it's", 'say "hi"', "a[1]", "@name", "a|b", "bébé", "名前", "a  b", " a ", "a<b>c",
             "0", "2", "-1", "-2", "02", "1_0", "+1", "1e0", "0x1", "١", "3.0", "None"]
RULE = (
    "H: identifiers over an alphabet rich in XPath/XML-significant characters (\", ', both, [ ] @ | / & < blanks non-ASCII, "
    "XPath fragments such as x\"] | //*[@a=\") filtered only by the respective setter (a setter raising ValueError/TypeError ends "
    "the case as trivial) x carriers with their lookups: table/get_table(name=), style/get_style(family,name) and display name, "
    "Document.get_table_style / get_table_displayed / set_table_displayed / get_cell_style_properties / get_cell_background_color by table name "
    "(numeric-looking names included, wanted table between decoys and a filler), bookmark (+start/end), reference mark (single/start/end)/get_reference_mark*, get_references(name), frame/get_frame(name=), "
    "image/get_image(name=), draw page, variable decl/set, user field decl, user defined, named range, note id, annotation "
    "name/annotation end, link name/title, text change id, section, manifest path (get_media_type/set/del_full_path), user-defined "
    "metadata name. Oracle: with a decoy carrying a near-miss identifier present, the lookup returns the object whose XML "
    "attribute equals exactly the identifier, list lookups return only it, no lookup raises (in particular no XPathError), and "
    "the same holds after Document.save + reload. Non-trivial = identifier with at least one of \" ' [ ] & < | @; distinct by "
    "(carrier, identifier)."
    " Also: Document methods taking 'name or index of the table' with numeric-looking names (wanted table between decoys an"
    'd a filler); titled frames nested in titled frames (name/title/description filters); API-generated annotation names in'
    ' attached and detached containers.'
)
ASSUMPTIONS = [
    "identity is judged on the stored XML attribute (get_attribute_string), not on the typed .name property",
    "control characters and CR are not generated (not representable in XML 1.0 attributes)",
    "a setter that raises ValueError/TypeError rejects the identifier: the case is trivial",
]
SPECIAL = set("\"'[]&<|@")


def decoys(name):
    out = [name + "_", "z" + name, name[:-1] if len(name) > 1 else name + "y"]
    for q in ('"', "'"):
        if q in name:
            out.append(name.split(q)[0] or "q")
            out.append(name.replace(q, ""))
    return [d for d in dict.fromkeys(out) if d and d != name]


def attr(el, qname):
    return el.get_attribute_string(qname) if el is not None else None


def build(carrier, name, ds):
    """-> (document, list of checks); a check = (label, callable(doc) -> element | list | value, expected attribute qname or None)"""
    from odfdo import (
        Bookmark, BookmarkEnd, BookmarkStart, Document, DrawPage, Element, Frame, Link, Note, Paragraph, Reference, ReferenceMark,
        ReferenceMarkEnd, ReferenceMarkStart, Section, Style, Table)
    from odfdo.note import Annotation, AnnotationEnd
    from odfdo.variable import UserDefined, UserFieldDecl, VarDecl, VarSet

    doc = Document("text" if carrier not in ("table", "table_doc", "named_range", "named_range_table", "draw_page") else ("spreadsheet" if carrier != "draw_page" else "presentation"))
    body = doc.body
    checks = []
    names = ds + [name]  # decoys first: a sloppy lookup returns a decoy

    def one(label, fn, qn):
        checks.append((label, fn, qn))

    if carrier == "table":
        body.clear()
        for n in names:
            body.append(Table(n, width=1, height=1))
        one("get_table(name=)", lambda d: d.body.get_table(name=name), "table:name")
    elif carrier == "table_doc":
        # Document-level methods taking "name or index of the table"; the wanted table sits after the decoys and before a filler,
        # so that a name mistaken for a position (0, 1, -1, ...) lands on another table
        from odfdo import Cell

        body.clear()
        for i, n in enumerate(names + ["Zfiller"]):
            t = Table(n, width=1, height=1, style=f"tst{i}")
            t.set_cell((0, 0), Cell("v", style=f"cst{i}"))
            body.append(t)
            doc.insert_style(Style("table", name=f"tst{i}", display="true"), automatic=True)
            doc.insert_style(Element.from_tag(
                f'<style:style style:name="cst{i}" style:family="table-cell"><style:table-cell-properties fo:background-color="#0000{i:02x}"/></style:style>'),
                automatic=True)
        k = len(names) - 1
        one("get_table_style", lambda d: d.get_table_style(name), "style:name")
        one("get_cell_background_color", lambda d: d.get_cell_background_color(name, (0, 0)), None)
        one("get_cell_style_properties", lambda d: d.get_cell_style_properties(name, "A1").get("fo:background-color"), None)
        one("get_table_displayed", lambda d: d.get_table_displayed(name), None)
        checks.append(("$k", k, None))
    elif carrier == "named_range":
        body.clear()
        t = Table("T", width=2, height=2)
        body.append(t)
        for n in names:
            t.set_named_range(n, "A1:B2")
        one("get_named_range", lambda d: d.body.get_named_range(name), "table:name")
        one("Table.get_named_range", lambda d: d.body.get_table(0).get_named_range(name), "table:name")
    elif carrier == "named_range_table":
        body.clear()
        for i, n in enumerate(names):
            t = Table(n, width=2, height=2)
            body.append(t)
            t.set_named_range(f"rng_{i}", "A1:B2")
        one("get_named_ranges(table_name=)", lambda d: d.body.get_table(name=name).get_named_ranges(table_name=name), "$table_name")
        one("get_named_ranges(table_name=[..])", lambda d: d.body.get_table(name=name).get_named_ranges(table_name=[name]), "$table_name")
    elif carrier == "style":
        for n in names:
            doc.insert_style(Style("paragraph", name=n, display_name="D" + n))
        one("get_style(family,name)", lambda d: d.get_style("paragraph", name), "style:name")
        one("get_style(display_name)", lambda d: d.get_style("paragraph", display_name="D" + name), "style:name")
        one("styles.get_style", lambda d: d.styles.get_style("paragraph", name), "style:name")
    elif carrier == "style_auto":
        for n in names:
            doc.insert_style(Style("text", name=n), automatic=True)
        one("get_style(auto)", lambda d: d.get_style("text", name), "style:name")
    elif carrier == "bookmark":
        p = Paragraph("some text here")
        body.append(p)
        for n in names:
            p.append(Bookmark(n))
            p.append(BookmarkStart(n))
            p.append("x")
            p.append(BookmarkEnd(n))
        one("get_bookmark", lambda d: d.body.get_bookmark(name=name), "text:name")
        one("get_bookmark_start", lambda d: d.body.get_bookmark_start(name=name), "text:name")
        one("get_bookmark_end", lambda d: d.body.get_bookmark_end(name=name), "text:name")
    elif carrier == "bookmark_api":
        p = Paragraph("some text here")
        body.append(p)
        for n in names:
            p.set_bookmark(n, position=2)
        one("set_bookmark/get_bookmark", lambda d: d.body.get_bookmark(name=name), "text:name")
    elif carrier == "refmark":
        p = Paragraph("some text here")
        body.append(p)
        for n in names:
            p.append(ReferenceMark(n))
            p.append(ReferenceMarkStart(n + "r"))
            p.append("y")
            p.append(ReferenceMarkEnd(n + "r"))
            p.append(Reference(n, "text"))
        one("get_reference_mark", lambda d: d.body.get_reference_mark(name=name), "text:name")
        one("get_reference_mark_single", lambda d: d.body.get_reference_mark_single(name=name), "text:name")
        one("get_reference_mark_start", lambda d: d.body.get_reference_mark_start(name=name + "r"), "text:name")
        one("get_reference_mark_end", lambda d: d.body.get_reference_mark_end(name=name + "r"), "text:name")
        one("get_reference_mark(range)", lambda d: d.body.get_reference_mark(name=name + "r"), "text:name")
        one("get_references", lambda d: d.body.get_references(name), "text:ref-name")
        one("referenced_text", lambda d: d.body.get_reference_mark_start(name=name + "r").referenced_text(), None)
    elif carrier == "frame":
        p = Paragraph("")
        body.append(p)
        for n in names:
            p.append(Frame.image_frame("Pictures/x.png", name=n, size=("1cm", "1cm"), anchor_type="as-char"))
        one("get_frame(name=)", lambda d: d.body.get_frame(name=name), "draw:name")
    elif carrier == "frame_nested":
        # a titled image frame inside the text box of another titled frame: name, title and description filters look at
        # the frame's own children only (titles are plain words here: the title filter is a regex search by documentation)
        for i, n in enumerate(names):
            inner = Frame.image_frame("Pictures/x.png", name=n, size=("1cm", "1cm"), anchor_type="as-char")
            inner.svg_title = f"Tq{i}q"
            inner.svg_description = f"Dq{i}q"
            holder = Paragraph("caption ")
            holder.append(inner)
            outer = Frame.text_frame([holder], name="outer" + n, size=("5cm", "3cm"), anchor_type="paragraph")
            outer.svg_title = f"Uq{i}q"
            outer.svg_description = f"Eq{i}q"
            p = Paragraph("")
            p.append(outer)
            body.append(p)
        k = len(names) - 1
        one("get_frame(name=)", lambda d: d.body.get_frame(name=name), "draw:name")
        one("get_frame(title=)", lambda d: d.body.get_frame(title=f"Tq{k}q"), "draw:name")
        one("get_frame(description=)", lambda d: d.body.get_frame(description=f"Dq{k}q"), "draw:name")
        one("get_frame(name=,title=)", lambda d: d.body.get_frame(name=name, title=f"Tq{k}q"), "draw:name")
        one("get_frames(title=)", lambda d: d.body.get_frames(title=f"Tq{k}q"), "draw:name")
        one("get_frame(title=outer)", lambda d: d.body.get_frame(title=f"Uq{k}q"), "$outer")
        one("get_frames(description=outer)", lambda d: d.body.get_frames(description=f"Eq{k}q"), "$outer")
    elif carrier == "draw_page":
        body.clear()
        for n in names:
            body.append(DrawPage("id" + n, name=n))
        one("get_draw_page(name=)", lambda d: d.body.get_draw_page(name=name), "draw:name")
    elif carrier == "variable":
        decls = body.get_variable_decls()
        p = Paragraph("v")
        body.append(p)
        for n in names:
            decls.append(VarDecl(n, "float"))
            p.append(VarSet(n, value=1))
        one("get_variable_decl", lambda d: d.body.get_variable_decl(name), "text:name")
        one("get_variable_set", lambda d: d.body.get_variable_set(name), "text:name")
        one("get_variable_sets", lambda d: d.body.get_variable_sets(name), "text:name")
    elif carrier == "user_field":
        decls = body.get_user_field_decls()
        p = Paragraph("v")
        body.append(p)
        for n in names:
            decls.append(UserFieldDecl(n, value="v" + n))
            p.append(UserDefined(n, value="u" + n))
        one("get_user_field_decl", lambda d: d.body.get_user_field_decl(name), "text:name")
        one("get_user_defined", lambda d: d.body.get_user_defined(name), "text:name")
        one("get_user_field_value", lambda d: d.body.get_user_field_value(name), None)
    elif carrier == "note":
        p = Paragraph("n")
        body.append(p)
        for n in names:
            p.append(Note("footnote", note_id=n, citation="1", body="b"))
        one("get_note(note_id=)", lambda d: d.body.get_note(note_id=name), "text:id")
    elif carrier == "annotation":
        p = Paragraph("n")
        body.append(p)
        for n in names:
            a = Annotation("b", creator="c", name=n)
            p.append(a)
            p.append("t")
            p.append(AnnotationEnd(a))
        one("get_annotation(name=)", lambda d: d.body.get_annotation(name=name), "office:name")
        one("get_annotation_end(name=)", lambda d: d.body.get_annotation_end(name=name), "office:name")
    elif carrier == "link":
        p = Paragraph("n")
        body.append(p)
        for n in names:
            p.append(Link("http://x/", name=n, title="T" + n, text="l"))
        one("get_link(name=)", lambda d: d.body.get_link(name=name), "office:name")
        one("get_link(title=)", lambda d: d.body.get_link(title="T" + name), "office:name")
    elif carrier == "section":
        for n in names:
            body.append(Section(name=n))
        # sections are looked up by position/content only; names are checked through get_sections + attribute
        one("get_sections", lambda d: [s for s in d.body.get_sections() if attr(s, "text:name") == name], "text:name")
    elif carrier == "change":
        p = Paragraph("n")
        body.append(p)
        for n in names:
            p.append(Element.from_tag("text:change-start"))
            p.children[-1].set_attribute("text:change-id", n)
        one("get_text_change(idx)", lambda d: d.body.get_text_change(idx=name), "text:change-id")
    elif carrier == "manifest":
        for n in names:
            doc.manifest.add_full_path("Pictures/" + n, "image/png" if n == name else "image/decoy")
        one("get_media_type", lambda d: d.manifest.get_media_type("Pictures/" + name), None)
    elif carrier == "meta":
        for n in names:
            doc.meta.set_user_defined_metadata(n, "first" + n)
        doc.meta.set_user_defined_metadata(name, "VALUE")
        one("user_defined_metadata", lambda d: d.meta.get_user_defined_metadata().get(name), None)
        one("user_defined_metadata_of_name", lambda d: (d.meta.get_user_defined_metadata_of_name(name) or {}).get("value"), None)
    return doc, checks


CARRIERS = ["table", "table_doc", "frame_nested", "annotation_auto", "named_range", "named_range_table", "style", "style_auto", "bookmark", "bookmark_api", "refmark", "frame", "draw_page", "variable",
            "user_field", "note", "annotation", "link", "section", "change", "manifest", "meta"]


def run_auto_names(case, ctx):
    """identifiers generated by the API itself (annotations without a given name): unique, and found again, wherever the
    paragraphs were when they were annotated (in the body, or in a container built first and attached afterwards)"""
    from odfdo import Document, Paragraph, Section

    name = case["name"]
    with ctx.guard(("C14", "annotation_auto", "exception"), case):
        doc = Document("text")
        body = doc.body
        body.clear()
        first = Paragraph("one two three")
        body.append(first)
        anns = []
        try:
            section = Section(name=name)
        except (ValueError, TypeError):
            ctx.count("rejected-by-setter:annotation_auto")
            return
        paras = [Paragraph(f"alpha{i} beta{i} gamma{i}") for i in range(1, 4)]
        for p_ in paras:
            section.append(p_)
        if len(name) % 2:
            body.append(section)  # annotated after being attached
        for i, p_ in enumerate(paras, 1):
            anns.append(p_.insert_annotation(content=f"beta{i}", body=f"body{i}", creator=f"c{i}"))
        if not len(name) % 2:
            body.append(section)  # built first, attached afterwards
            ctx.count("auto-names-in-detached-container")
        # one more in the body, once everything is attached (a name generated inside a detached container cannot know the
        # names of the document it will join: that order is not exercised)
        anns.insert(0, first.insert_annotation(content="two", body="body0", creator="c0"))
        names = [a.name for a in anns]
        ctx.nontrivial(("annotation_auto", name))

        def judge(d, phase):
            ctx.check(len(set(names)) == len(names) and all(names), ("C14", "annotation_auto", "generated-names-collide"),
                      f"generated annotation names {names!r} ({phase})", case)
            for i, n in enumerate(names):
                for holder, hname in ((d.body, "body"), (d.body.get_sections()[0], "section")):
                    if hname == "section" and i == 0:
                        continue
                    got = holder.get_annotation(name=n)
                    ok = got is not None and got.creator == f"c{i}" and f"body{i}" in got.note_body
                    ctx.check(ok, ("C14", "annotation_auto", "wrong-object", "get_annotation(name=)"),
                              f"{hname}.get_annotation(name={n!r}) returned {None if got is None else (got.creator, got.note_body)!r}, "
                              f"stored under that name: ('c{i}', 'body{i}') ({phase})", case)
                    end = holder.get_annotation_end(name=n)
                    ctx.check(end is not None and end.name == n, ("C14", "annotation_auto", "wrong-object", "get_annotation_end(name=)"),
                              f"{hname}.get_annotation_end(name={n!r}) -> {None if end is None else end.name!r} ({phase})", case)
            listed = sorted(d.body.get_office_names())
            ctx.check(listed == sorted(set(names)), ("C14", "annotation_auto", "wrong-object", "get_office_names"),
                      f"body.get_office_names() = {listed!r}, annotations carry {sorted(names)!r} ({phase})", case)

        judge(doc, "in memory")
        buf = io.BytesIO()
        doc.save(buf)
        buf.seek(0)
        judge(Document(buf), "after save+reload")


def run_case(case, ctx):
    if case["carrier"] == "annotation_auto":
        return run_auto_names(case, ctx)
    carrier, name = case["carrier"], case["name"]
    if carrier in ("table", "table_doc", "named_range", "named_range_table"):
        # these setters store the stripped name: the stored form is the identifier
        name = name.strip()
        if not name:
            ctx.count("rejected-by-setter:" + carrier)
            return
    if carrier in ("style", "style_auto") and name in ("true", "false") and ctx.known(("C14", "style", "identifier-true-false")):
        return
    ds = decoys(name)
    if carrier in ("style", "style_auto"):
        ds = [d for d in ds if d not in ("true", "false")]  # the known finding must not enter through a decoy
    try:
        doc, checks = build(carrier, name, ds)
    except (ValueError, TypeError):
        ctx.count("rejected-by-setter:" + carrier)
        return
    except Exception as e:
        ctx.fail(("C14", carrier, "setter-exception", type(e).__name__), f"storing {name!r}: {e!r}", case)
        return
    if set(name) & SPECIAL:
        ctx.nontrivial((carrier, name))
    ctx.count("accepted:" + carrier)

    def judge(d, phase):
        k = next((fn for label, fn, _q in checks if label == "$k"), None)
        for label, fn, qn in checks:
            if label == "$k":
                continue
            try:
                got = fn(d)
            except Exception as e:
                ctx.fail(("C14", carrier, "lookup-exception", label, type(e).__name__),
                         f"{label} with identifier {name!r} raised {type(e).__name__}: {str(e)[:200]} ({phase})", case)
                continue
            if carrier == "table_doc":
                want = {"get_table_style": f"tst{k}", "get_cell_background_color": f"#0000{k:02x}", "get_cell_style_properties": f"#0000{k:02x}",
                        "get_table_displayed": True}[label]
                seen = attr(got, qn) if label == "get_table_style" else got
                ctx.check(seen == want, ("C14", carrier, "wrong-object", label),
                          f"{label}({name!r}) answered {seen!r}, the table of that name has {want!r} (tables: {ds + [name, 'Zfiller']!r}) ({phase})", case)
                continue
            if label == "get_media_type":
                ctx.check(got == "image/png", ("C14", carrier, "wrong-object", label), f"{label}({name!r}) = {got!r} ({phase})", case)
                continue
            if label.startswith("user_defined_metadata"):
                ctx.check(got == "VALUE", ("C14", carrier, "wrong-object", label),
                          f"metadata {name!r} set twice reads {got!r}, expected 'VALUE' ({phase})", case)
                continue
            if label == "get_user_field_value":
                ctx.check(got == "v" + name, ("C14", carrier, "wrong-object", label), f"{label}({name!r}) = {got!r} ({phase})", case)
                continue
            if label == "referenced_text":
                ctx.check(got == "y", ("C14", carrier, "wrong-object", label), f"referenced_text of {name + 'r'!r} = {got!r} ({phase})", case)
                continue
            if qn == "$outer":
                ids = [attr(g, "draw:name") for g in (got if isinstance(got, list) else [got])]
                ctx.check(ids == ["outer" + name], ("C14", carrier, "wrong-object", label),
                          f"{label} returned frames {ids!r}, the frame carrying that title/description is {'outer' + name!r} ({phase})", case)
                continue
            if isinstance(got, list) and qn == "$table_name":
                ids = [g.table_name for g in got]
                ctx.check(len(got) == 1 and ids == [name], ("C14", carrier, "wrong-object", label),
                          f"{label}({name!r}) returned ranges of tables {ids!r} with decoy tables {ds!r} present ({phase})", case)
                continue
            if isinstance(got, list):
                ids = [attr(g, qn) for g in got]
                want = name
                ctx.check(len(got) >= 1 and all(i == want for i in ids), ("C14", carrier, "wrong-object", label),
                          f"{label}({name!r}) returned identifiers {ids!r} ({phase})", case)
                continue
            want = name + "r" if ("start" in label and carrier == "refmark") or ("_end" in label and carrier == "refmark") or label.endswith("(range)") else name
            ctx.check(got is not None and attr(got, qn) == want, ("C14", carrier, "wrong-object", label),
                      f"{label}({want!r}) returned {None if got is None else attr(got, qn)!r} with decoys {ds!r} present ({phase})", case)

    judge(doc, "in memory")
    if carrier == "table_doc":
        with ctx.guard(("C14", carrier, "set_table_displayed"), case):
            doc.set_table_displayed(name, False)
            root = odfread.parse(doc.content.serialize())
            shown = {}
            for t in root.iter(odfread.T_TABLE):
                sn = t.get(odfread.q("table:style-name"))
                disp = "true"
                for st_ in root.iter(odfread.q("style:style")):
                    if st_.get(odfread.q("style:name")) == sn:
                        for tp in st_.iter(odfread.q("style:table-properties")):
                            disp = tp.get(odfread.q("table:display"), "true")
                shown[t.get(odfread.q("table:name"))] = disp
            wrong = {n: v for n, v in shown.items() if v != ("false" if n == name else "true")}
            ctx.check(not wrong, ("C14", carrier, "wrong-object", "set_table_displayed"),
                      f"set_table_displayed({name!r}, False) left table:display = {shown!r}", case)
        return
    if carrier == "manifest":
        with ctx.guard(("C14", carrier, "del_full_path"), case):
            doc.manifest.del_full_path("Pictures/" + name)
            ctx.check(doc.manifest.get_media_type("Pictures/" + name) is None, ("C14", carrier, "del_full_path-missed"), "entry still listed", case)
            for d_ in ds:
                ctx.check(doc.manifest.get_media_type("Pictures/" + d_) == "image/decoy", ("C14", carrier, "del_full_path-hit-decoy"),
                          f"deleting {name!r} removed {d_!r}", case)
        return
    if case.get("reload", True):
        with ctx.guard(("C14", carrier, "save-reload"), case):
            from odfdo import Document

            buf = io.BytesIO()
            doc.save(buf)
            buf.seek(0)
            d2 = Document(buf)
        judge(d2, "after save+reload")


def replay(case, ctx):
    try:
        run_case(case, ctx)
    except Abandon:
        pass


def run_shard(ctx):
    names = st.one_of(
        st.lists(st.sampled_from(ALPHA), min_size=1, max_size=8).map("".join),
        st.sampled_from([f for f in FRAGMENTS if f]),
        st.tuples(st.sampled_from(FRAGMENTS), st.lists(st.sampled_from(ALPHA), max_size=3).map("".join)).map(lambda t: t[0] + t[1]).filter(bool),
    )
    cases = st.fixed_dictionaries({"carrier": st.sampled_from(CARRIERS), "name": names, "reload": st.integers(0, 2).map(lambda i: i == 0)})

    def mk():
        @given(cases)
        def t(case):
            ctx.ev()
            try:
                run_case(case, ctx)
                ctx.maybe_sample(case, 1009)
            except Abandon:
                pass
        return t

    ctx.run_given(mk, ctx.budget(48000, 500000))
