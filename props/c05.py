"""C05 - paragraph text round-trips exactly and is in ODF white-space normal form."""
from __future__ import annotations

import itertools
import re

from hypothesis import given, strategies as st

from lib import odfread
from lib.harness import Abandon

ID = "C05"
ALPHA = ["a", "é", " ", "\t", "\n", "<", "&"]
RULE = (
    "E: every string over {a, e-acute, SPACE, TAB, LF, <, &} up to length 5 (thorough 6) as Paragraph(s), Header(1, s), "
    "Span(s), and every 2-way split up to length 4 (thorough 5; 3-way up to 4) fed through successive append / "
    "append_plain_text calls on the three classes. H: text over a rich alphabet (letters, the three blanks, NBSP and other "
    "Unicode spaces, <>&\"', ]]>, astral characters, combining marks, the token ' xmlns:a=\"b\"') up to length 60 split into "
    "<= 6 pieces. Oracle: inner_text == s; Element.from_tag(serialize()) has the same class, the same inner_text and "
    "C14N-equal XML; an independent ODF 1.2 6.1.2 white-space interpreter over the lxml tree of the serialisation yields s; "
    "text:c is an integer >= 1. Non-trivial = s has a blank run of length >= 2, or a blank at an edge or next to TAB/LF, or a "
    "split point inside/adjacent to a blank run; distinct by (class, pieces). In a third of the random cases the element is first "
    "attached to a parent with text after it (a Span inside a paragraph between two texts, a Paragraph/Header inside a section "
    "with an indentation tail) and the remaining pieces are appended afterwards: same oracle, plus the host paragraph's own text "
    "and normal form, and an untouched tail."
)
ASSUMPTIONS = [
    "lib/odfread.ws_text implements ODF 1.2 part 1 section 6.1.2 (text:s/tab/line-break opaque, HT/CR/LF -> SPACE, strip, collapse)",
    "CR and XML-1.0-forbidden control characters are outside the quantified alphabet",
    "a Span or Header is interpreted as the root of the white-space processing, like a paragraph",
]

CLASSES = ["Paragraph", "Header", "Span"]
RE_NT = re.compile(r"  |^ | $|[ \t\n][\t\n]|[\t\n] ")


def build(cls, pieces, how, host=None):
    from odfdo import Element, Header, Paragraph, Span

    first = pieces[0] if pieces else ""
    if cls == "Paragraph":
        e = Paragraph(first)
    elif cls == "Header":
        e = Header(1, first)
    else:
        e = Span(first)
    if host is not None:
        # the element already sits in a parent, with text after it (its tail), while the other pieces are appended
        before, after = host
        if cls == "Span":
            h = Paragraph(before)
            h.append(e)
            h.append(after)
        else:
            h = Element.from_tag("text:section")
            h.append(e)
            e.tail = "\n  " if after else None
    for i, p in enumerate(pieces[1:]):
        if how == "append" or (how == "mixed" and i % 2 == 0):
            e.append(p)
        else:
            e.append_plain_text(p)
    return e


def nontrivial(pieces):
    s = "".join(pieces)
    if RE_NT.search(s):
        return True
    pos = 0
    for p in pieces[:-1]:
        pos += len(p)
        if (pos > 0 and s[pos - 1] in " \t\n") or (pos < len(s) and s[pos] in " \t\n"):
            return True
    return False


def check(ctx, cls, pieces, how, host=None):
    from odfdo import Element

    s = "".join(pieces)
    case = {"cls": cls, "pieces": list(pieces), "how": how}
    if host is not None:
        case["host"] = list(host)
        ctx.count("attached-to-a-parent")
    ctx.ev()
    if nontrivial(pieces):
        ctx.nontrivial((cls, tuple(pieces), how, tuple(host) if host else None))
    with ctx.guard(("C05", cls, "exception"), case):
        e = build(cls, pieces, how, host)
        got = e.inner_text
        if host is not None and cls == "Span":
            par = e.parent
            whole = host[0] + s + host[1]
            ctx.check(par.inner_text == whole, ("C05", cls, "host-text"),
                      f"paragraph {host[0]!r} + Span built from {list(pieces)!r} + {host[1]!r} reports {par.inner_text!r}", case)
            seen_host = odfread.ws_text(odfread.parse_fragment(par.serialize()))
            ctx.check(seen_host == whole, ("C05", cls, "host-not-normal-form"),
                      f"{par.serialize()!r} is read by an ODF consumer as {seen_host!r}, the text was {whole!r}", case)
        if host is not None and cls != "Span":
            ctx.check((e.tail or "") == ("\n  " if host[1] else ""), ("C05", cls, "tail-changed"),
                      f"appending to the element changed its tail to {e.tail!r}", case)
        ctx.check(got == s, ("C05", cls, "inner_text"), f"{cls} built from {list(pieces)!r} reports {got!r}, expected {s!r}", case)
        xml = e.serialize()
        back = Element.from_tag(xml)
        ctx.check(type(back) is type(e), ("C05", cls, "reparse-class"), f"re-parsed as {type(back).__name__}", case)
        ctx.check(back.inner_text == s, ("C05", cls, "reparse-text"),
                  f"{xml!r} re-parsed reports {back.inner_text!r}, expected {s!r}", case)
        root = odfread.parse_fragment(xml)
        ctx.check(odfread.c14n(odfread.parse_fragment(back.serialize())) == odfread.c14n(root), ("C05", cls, "reparse-c14n"),
                  f"serialize -> from_tag -> serialize changed the XML: {xml!r} -> {back.serialize()!r}", case)
        seen = odfread.ws_text(root)
        ctx.check(seen == s, ("C05", cls, "not-normal-form"),
                  f"{xml!r} is read by an ODF consumer (6.1.2 white-space collapsing) as {seen!r}, the text was {s!r}", case)
        for sp in root.iter(odfread.T_S):
            c = sp.get(odfread.q("text:c"))
            ctx.check(c is None or (c.isdigit() and int(c) >= 1), ("C05", cls, "text:c"), f"text:c={c!r} in {xml!r}", case)


def check_setter(ctx, cls, raw, inner, pieces, obj):
    """the `text` setter writes raw character data; an element appended as an object and then strings appended: after the
    last string append the whole content reads as the concatenation and is in normal form again"""
    from odfdo import Element, Header, Link, Paragraph, Span

    case = {"cls": cls, "raw": raw, "inner": inner, "pieces": list(pieces), "obj": obj, "how": "setter"}
    ctx.ev()
    ctx.count("setter-then-object-then-text")
    whole = raw + inner + "".join(pieces)
    if RE_NT.search(raw) or "\t" in raw or "\n" in raw:
        ctx.nontrivial((cls, "setter", raw, inner, tuple(pieces), obj))
    with ctx.guard(("C05", cls, "exception"), case):
        e = {"Paragraph": lambda: Paragraph(""), "Header": lambda: Header(1, ""), "Span": lambda: Span("")}[cls]()
        e.text = raw
        e.append(Span(inner) if obj == "span" else Link("http://x/", text=inner))
        for p_ in pieces:
            e.append(p_)
        if obj == "link":
            return  # links render as [text](url) in inner_text: only the span form is judged on text
        ctx.check(e.inner_text == whole, ("C05", cls, "inner_text"), f"{cls}: text={raw!r}, append(Span({inner!r})), append {list(pieces)!r} reports {e.inner_text!r}", case)
        xml = e.serialize()
        seen = odfread.ws_text(odfread.parse_fragment(xml))
        ctx.check(seen == whole, ("C05", cls, "not-normal-form"),
                  f"{xml!r} is read by an ODF consumer as {seen!r}, the text was {whole!r} (text setter, object append, string appends)", case)
        back = Element.from_tag(xml)
        ctx.check(back.inner_text == whole, ("C05", cls, "reparse-text"), f"{xml!r} re-parsed reports {back.inner_text!r}", case)


def replay(case, ctx):
    if case.get("how") == "setter":
        try:
            check_setter(ctx, case["cls"], case["raw"], case["inner"], case["pieces"], case["obj"])
        except Abandon:
            pass
        return
    try:
        check(ctx, case["cls"], case["pieces"], case["how"], case.get("host"))
    except Abandon:
        pass


RICH = list("abcXYZ09éü") + [" ", " ", " ", "\t", "\n", " ", " ", "　", "​", "<", ">", "&", '"', "'",
                             "]]>", "\U0001F600", "é", ' xmlns:a="b"', "&amp;", "<!--", " "]


def run_shard(ctx):
    maxlen = 6 if ctx.thorough else 5
    split_len = 5 if ctx.thorough else 4

    def enum(_r):
        i = 0
        for L in range(0, maxlen + 1):
            for tup in itertools.product(ALPHA, repeat=L):
                i += 1
                if i % ctx.nshards != ctx.shard:
                    continue
                s = "".join(tup)
                for cls in CLASSES:
                    try:
                        check(ctx, cls, [s], "ctor")
                    except Abandon:
                        pass
                if L <= split_len:
                    for cut in range(0, L + 1):
                        for cls, how in (("Paragraph", "append"), ("Span", "plain"), ("Header", "append")):
                            if cls != "Paragraph" and (i + cut) % 2:
                                continue
                            try:
                                check(ctx, cls, [s[:cut], s[cut:]], how)
                            except Abandon:
                                pass
                if ctx.thorough and L <= 4:
                    for c1 in range(0, L + 1):
                        for c2 in range(c1, L + 1):
                            try:
                                check(ctx, "Paragraph", [s[:c1], s[c1:c2], s[c2:]], "mixed")
                            except Abandon:
                                pass
        ctx.count("enumerated-strings", i // ctx.nshards)
        ctx.extra["exhaustive"] = True
        ctx.extra["exhaustive_bound"] = f"alphabet {ALPHA!r}, creation length <= {maxlen}, 2-way splits length <= {split_len}"
        if ctx.shard == 0:
            ctx.sample({"cls": "Paragraph", "pieces": ["a  ", " \tb"], "how": "append"})

    def long_runs(_r):
        """blank runs around the lengths where the text:c count changes its number of digits, then one more append"""
        k = 0
        for n in list(range(1, 24)) + [98, 99, 100, 101, 102, 199, 200, 201, 999, 1000, 1001]:
            for shape in ("inner", "leading", "trailing", "only"):
                first = {"inner": "x" + " " * n + "y", "leading": " " * n + "y", "trailing": "x" + " " * n, "only": " " * n}[shape]
                for more in (["z"], [""], [" ", "w"], ["\t"]):
                    k += 1
                    if k % ctx.nshards != ctx.shard:
                        continue
                    for cls, how in (("Paragraph", "append"), ("Header", "plain"), ("Span", "mixed")):
                        try:
                            check(ctx, cls, [first] + more, how)
                        except Abandon:
                            pass
        # many tabs / line breaks in one piece (a row of tab-separated values, a multi-line text)
        for n in (7, 8, 9, 10, 12, 17, 40):
            for unit in ("\t", "\n", "\t\n", "x\t", "y\n", " \t", "\n "):
                for more in ([], ["z"], ["\t"]):
                    k += 1
                    if k % ctx.nshards != ctx.shard:
                        continue
                    for cls, how in (("Paragraph", "append"), ("Header", "plain"), ("Span", "mixed")):
                        try:
                            check(ctx, cls, [unit * n] + more, how)
                        except Abandon:
                            pass
        ctx.count("long-run-cases", k // ctx.nshards)

    ctx.engine.add("enumeration")
    ctx.rounds_loop(enum)
    ctx.rounds_loop(long_runs)

    blanks = st.one_of(st.sampled_from([2, 3, 9, 10, 11, 12, 19, 20, 21, 99, 100, 101, 130]).map(lambda n: " " * n),
                       st.tuples(st.sampled_from(["\t", "\n", "\t\n", "a\t", " \n"]), st.integers(5, 14)).map(lambda p: p[0] * p[1]))
    piece = st.one_of(st.lists(st.sampled_from(RICH), max_size=12).map("".join), st.lists(st.sampled_from(RICH), max_size=12).map("".join),
                      st.tuples(st.sampled_from(["", "a", "\t"]), blanks, st.sampled_from(["", "b", "\n"])).map("".join))
    pieces = st.lists(piece, min_size=1, max_size=6)

    hosts = st.one_of(st.none(), st.none(), st.tuples(st.sampled_from(["", "x", "x ", " "]), st.sampled_from(["", "d", "d  e", " d", "  ", "\t"])))

    def mk():
        @given(st.sampled_from(CLASSES), pieces, st.sampled_from(["append", "plain", "mixed"]), hosts)
        def t(cls, ps, how, host):
            try:
                check(ctx, cls, ps, how, host)
                ctx.maybe_sample({"cls": cls, "pieces": ps, "how": how, "host": host}, 4001)
            except Abandon:
                pass
        return t

    ctx.run_given(mk, ctx.budget(20000, 400000), salt=1)

    def mk_setter():
        raws = st.sampled_from(["Total:  ", " lead", "a\tb", "x\ny", "a  b", "plain", "trail ", "  ", "\t", "a \t b", ""])
        @given(st.sampled_from(CLASSES), raws, st.sampled_from(["S", "in  ner", " s ", ""]),
               st.lists(st.one_of(st.sampled_from(["z", " z", "z  ", "\t", "", " "]), piece), min_size=1, max_size=3), st.sampled_from(["span", "span", "link"]))
        def t(cls, raw, inner, ps, obj):
            try:
                check_setter(ctx, cls, raw, inner, ps, obj)
            except Abandon:
                pass
        return t

    ctx.run_given(mk_setter, ctx.budget(3000, 60000), salt=2)
    if ctx.thorough:
        from lib.fuzz import run_campaign

        ctx.rounds_loop(lambda _r: run_campaign(ctx, "props.c05", runs=600_000 // ctx.nshards,
                                                seeds=["a  b", " a\t\n b ", "x  y"], modules=["odfdo.paragraph"], max_len=24))


def fuzz_target(ctx):
    def target(s):
        if any(ord(c) < 32 and c not in "\t\n" for c in s) or "\r" in s or any(0xD800 <= ord(c) <= 0xDFFF or ord(c) in (0xFFFE, 0xFFFF) for c in s):
            return
        cut = len(s) // 2
        check(ctx, "Paragraph", [s], "ctor")
        check(ctx, "Paragraph", [s[:cut], s[cut:]], "append")

    return target
