"""C17 - whole-table transformations preserve the content they are not meant to remove."""
from __future__ import annotations

import csv
import io

from hypothesis import given, strategies as st

from lib import odfread
from lib.gridmodel import same_value
from lib.harness import Abandon
from lib.tablemachine import STYLES, VALUES, build_initial, st_cell, st_initial

ID = "C17"
RULE = (
    "H: tables from run-length descriptions (ragged rows, styled empty cells, trailing empty repeated rows/cells, optional "
    "existing span) x compositions of up to 6 steps from {transpose twice (whole / square area), rstrip(aggressive), "
    "optimize_width, set_span(area, merge), del_span, span round trip, to_csv -> import_from_csv}; before/after matrices of "
    "(value, style, covered, span) come from the independent lxml expansion of the serialisation. Oracles: transpose o "
    "transpose = identity on the bounding box and keeps the table attributes; strip/optimize: result is a top-left sub-grid of "
    "the original, everything outside it was empty, idempotent, live == fresh parse, XML lints clean; spans: covered map is "
    "exactly the rectangle, overlap refused with the XML unchanged, values unchanged unless merge (then documented "
    "concatenation in the anchor), del_span restores kinds and values; CSV: values equal in CSV-canonical form. "
    "Non-trivial = table with trailing empties inside a repeated run, a styled empty cell, or a span touching the area; "
    "distinct by (spec, steps)."
)
ASSUMPTIONS = [
    "lib/odfread.expand_table + span_map read the serialised table correctly (lxml)",
    "emptiness for the 'only empty things vanish' clause is the documented one (no value or empty string, not spanned, and no "
    "style unless aggressive / optimize_width)",
    "CSV has no null and no types: None == '' , strings compared stripped, number/date/bool-looking strings excluded, "
    "csv.Sniffer failures on undetectable dialects are counted, not judged",
    "transpose of an area is judged on square areas only (docstring warns about non-square ones); tables holding spans are "
    "not transposed",
]

A_CS = odfread.q("table:number-columns-spanned")
A_RS = odfread.q("table:number-rows-spanned")


def snap(t):
    """Independent matrix: rows of (value, style, covered, span) + declared width."""
    root = odfread.parse_fragment(t.serialize())
    cols = sum(odfread._rep(c, odfread.A_COLREP) for c in odfread._iter_cols(root))
    rows = []
    for r in odfread._iter_rows(root):
        cells = []
        for c in r:
            if c.tag not in (odfread.T_CELL, odfread.T_COVERED):
                continue
            v, _vt = odfread.cell_value(c)
            span = (int(c.get(A_CS)), int(c.get(A_RS))) if c.get(A_CS) is not None and c.get(A_RS) is not None else None
            cells.extend([(v, c.get(odfread.q("table:style-name")), c.tag == odfread.T_COVERED, span)] * odfread._rep(c, odfread.A_COLREP))
        for _ in range(odfread._rep(r, odfread.A_ROWREP)):
            rows.append(list(cells))
    return {"w": cols, "rows": rows, "attrs": dict(root.attrib)}


E = (None, None, False, None)


def at(s, x, y):
    if y < len(s["rows"]) and x < len(s["rows"][y]):
        return s["rows"][y][x]
    return E


def cell_eq(a, b):
    return same_value(a[0], b[0]) and a[1:] == b[1:]


def bbox(s):
    return max([len(r) for r in s["rows"]] + [0]), len(s["rows"])


def is_empty(c, ignore_style):
    return c[0] in (None, "") and not c[2] and c[3] is None and (ignore_style or c[1] is None)


def lint(ctx, t, case, where):
    problems, ex = odfread.lint_table(odfread.parse_fragment(t.serialize()))
    for code, msg in problems:
        ctx.fail(("C17", where, "lint-" + code), msg, case)
    ctx.check(t.size == (ex["ncols"], len(ex["rows"])), ("C17", where, "size-vs-xml"),
              f"size {t.size}, XML {(ex['ncols'], len(ex['rows']))}", case)


def fresh_equal(ctx, t, case, where):
    from odfdo import Element

    f = Element.from_tag(t.serialize())
    a, b = t.get_values(), f.get_values()
    ok = len(a) == len(b) and all(len(r) == len(q) and all(same_value(x, y) for x, y in zip(r, q)) for r, q in zip(a, b))
    ctx.check(ok and t.size == f.size, ("C17", where, "live-vs-fresh"),
              f"after {where}: live {t.size} {a!r}; fresh parse {f.size} {b!r}", case)


def do_strip(ctx, t, step, case, labels):
    which = step["k"]
    before = snap(t)
    wb, hb = max(before["w"], bbox(before)[0]), len(before["rows"])
    # non-triviality: trailing empties inside repeated runs / styled empty cells
    xml = t.serialize()
    if 'repeated' in xml and any(is_empty(c, True) for r in before["rows"] for c in r[-1:]):
        labels.add("trailing-empties")
    if any(c[0] is None and c[1] is not None for r in before["rows"] for c in r):
        labels.add("styled-empty")
    with ctx.guard(("C17", which, "exception"), case):
        if step.get("probe") and hb:
            # coordinate reads in the last rows / cells first (they fill the wrapper caches the stripping must not trust later)
            for yy in {hb - 1, max(hb - 2, 0), 0}:
                t.get_value((0, yy))
                t.get_cell((max(wb - 1, 0), yy))
                t.get_row(yy)
            labels.add("probe-before-strip")
        if which == "rstrip":
            t.rstrip(aggressive=step["aggr"])
        else:
            t.optimize_width()
        after = snap(t)
        once = t.serialize()
        ignore_style = step.get("aggr", False) or which == "optimize_width"
        wa, ha = max(after["w"], bbox(after)[0]), len(after["rows"])
        ctx.check(ha <= hb and wa <= wb, ("C17", which, "grew"), f"{(wb, hb)} -> {(wa, ha)}", case)
        for y in range(hb):
            for x in range(wb):
                b = at(before, x, y)
                if y < ha and x < wa:
                    a = at(after, x, y)
                    kept = cell_eq(a, b) or (is_empty(b, ignore_style) and is_empty(a, True) and x >= len(after["rows"][y]))
                    ctx.check(kept, ("C17", which, "cell-changed"),
                              f"{which}: cell ({x},{y}) was {b!r}, now {a!r}", case)
                else:
                    ctx.check(is_empty(b, ignore_style), ("C17", which, "non-empty-removed"),
                              f"{which}: cell ({x},{y}) = {b!r} is not empty but lies outside the result {(wa, ha)}", case)
        ctx.check(after["attrs"] == before["attrs"], ("C17", which, "attributes"), "table attributes changed", case)
        lint(ctx, t, case, which)
        fresh_equal(ctx, t, case, which)
        if which == "rstrip":
            t.rstrip(aggressive=step["aggr"])
        else:
            t.optimize_width()
        again = snap(t)
        same = len(again["rows"]) == len(after["rows"]) and again["w"] == after["w"] and all(
            len(r) == len(q) and all(cell_eq(a, b) for a, b in zip(r, q)) for r, q in zip(again["rows"], after["rows"]))
        ctx.check(same, ("C17", which, "not-idempotent"),
                  f"second {which} changed the table: {once} -> {t.serialize()}", case)
        if step.get("probe"):
            # the stripped table keeps working by coordinates: values written just below / right of it are read back there
            h2, w2 = len(again["rows"]), max(again["w"], bbox(again)[0])
            writes = [((0, h2), "below0"), ((1, h2 + 1), "below1"), ((w2 + 2, 0 if h2 else 2), "right0")]
            for xy_, val in writes:
                t.set_value(xy_, val)
            for xy_, val in writes:
                got = t.get_value(xy_)
                ctx.check(got == val, ("C17", which, "write-after-strip-not-read-back"),
                          f"after {which} (size {(w2, h2)}): set_value({xy_}, {val!r}) then get_value = {got!r}; get_values() = {t.get_values()!r}", case)
            sp = t.set_span((0, h2, 1, h2 + 1))
            ctx.check(sp is True and t.get_cell((0, h2)).is_spanned(), ("C17", which, "span-after-strip"),
                      f"after {which}: set_span over the rows written below the table returned {sp}, is_spanned={t.get_cell((0, h2)).is_spanned()}", case)
            ctx.check(t.del_span((0, h2)) is True, ("C17", which, "span-after-strip"), "del_span of that span returned False", case)
            lint(ctx, t, case, which)
            fresh_equal(ctx, t, case, which)


def has_spans(s):
    return any(c[2] or c[3] for r in s["rows"] for c in r)


def do_transpose(ctx, t, step, case, labels):
    before = snap(t)
    if has_spans(before):
        return
    w, h = bbox(before)
    with ctx.guard(("C17", "transpose", "exception"), case):
        if step["k"] == "transpose2":
            if len({len(r) for r in before["rows"]}) > 1:
                labels.add("ragged-transpose")
            t.transpose()
            mid = snap(t)
            mw, mh = bbox(mid)
            ctx.check((mw, mh) == (h if w else 0, w), ("C17", "transpose", "shape"),
                      f"bounding box {(w, h)} transposed to {(mw, mh)}", case)
            for y in range(h):
                for x in range(w):
                    ctx.check(cell_eq(at(mid, y, x), at(before, x, y)), ("C17", "transpose", "cell"),
                              f"cell ({x},{y}) {at(before, x, y)!r} should be at ({y},{x}), found {at(mid, y, x)!r}", case)
            ctx.check(mid["attrs"] == before["attrs"], ("C17", "transpose", "attributes"),
                      f"table attributes {before['attrs']!r} became {mid['attrs']!r}", case)
            lint(ctx, t, case, "transpose")
            fresh_equal(ctx, t, case, "transpose")
            t.transpose()
        else:
            n = step["n"]
            x0, y0 = step["x"], step["y"]
            if not (w and h) or x0 + n > before["w"] or y0 + n > h:
                return
            area = (x0, y0, x0 + n - 1, y0 + n - 1)
            t.transpose(area)
            mid = snap(t)
            for j in range(n):
                for i in range(n):
                    a, b = at(mid, x0 + j, y0 + i), at(before, x0 + i, y0 + j)
                    ctx.check(same_value(a[0], b[0]) and a[1] == b[1], ("C17", "transpose-area", "cell"),
                              f"area {area}: cell ({x0 + i},{y0 + j}) {b!r} should be at ({x0 + j},{y0 + i}), found {a!r}", case)
            t.transpose(area)
        after = snap(t)
        if w:  # a grid without any cell has no transposition to come back from
            ctx.check(len(after["rows"]) == h, ("C17", step["k"], "height"), f"height {h} -> {len(after['rows'])}", case)
        for y in range(h):
            for x in range(max(w, bbox(after)[0])):
                ctx.check(cell_eq(at(after, x, y), at(before, x, y)), ("C17", step["k"], "not-involutive"),
                          f"after transposing twice cell ({x},{y}) is {at(after, x, y)!r}, was {at(before, x, y)!r}", case)
        lint(ctx, t, case, step["k"])
        fresh_equal(ctx, t, case, step["k"])


def span_facts(s):
    anchors = {}
    covered = set()
    for y, r in enumerate(s["rows"]):
        for x, c in enumerate(r):
            if c[3]:
                anchors[(x, y)] = c[3]
            if c[2]:
                covered.add((x, y))
    return anchors, covered


def do_span(ctx, t, step, case, labels):
    before = snap(t)
    x, y, z, tt = step["x"], step["y"], step["x"] + step["dx"], step["y"] + step["dy"]
    anchors, covered = span_facts(before)
    rect = {(i, j) for j in range(y, tt + 1) for i in range(x, z + 1)}
    occupied = set(covered)
    for (ax, ay), (cs, rs) in anchors.items():
        occupied |= {(i, j) for j in range(ay, ay + rs) for i in range(ax, ax + cs)}
    overlap = bool(rect & occupied)
    if anchors:
        labels.add("existing-span")
    if overlap:
        labels.add("span-overlap")
    xml0 = t.serialize()
    with ctx.guard(("C17", "set_span", "exception"), case):
        res = t.set_span((x, y, z, tt), merge=step["merge"])
        after = snap(t)
        if (x, y) == (z, tt):
            ctx.check(res is False and t.serialize() == xml0, ("C17", "set_span", "single-cell"), "single cell span not refused", case)
            return
        if overlap:
            ctx.check(res is False, ("C17", "set_span", "overlap-accepted"),
                      f"set_span({(x, y, z, tt)}) returned {res} although it overlaps an existing span", case)
            unchanged = all(cell_eq(at(after, i, j), at(before, i, j))
                            for j in range(max(len(before["rows"]), len(after["rows"]))) for i in range(max(bbox(before)[0], bbox(after)[0])))
            ctx.check(unchanged, ("C17", "set_span", "overlap-changed-table"), "refused span changed the table content", case)
            return
        ctx.check(res is True, ("C17", "set_span", "refused"), f"set_span({(x, y, z, tt)}) returned {res} without overlap", case)
        a2, c2 = span_facts(after)
        ctx.check(a2.get((x, y)) == (z - x + 1, tt - y + 1), ("C17", "set_span", "anchor"),
                  f"anchor ({x},{y}) carries span {a2.get((x, y))}, expected {(z - x + 1, tt - y + 1)}", case)
        new_cov = c2 - covered
        ctx.check(new_cov == rect - {(x, y)} and set(a2) - set(anchors) == {(x, y)}, ("C17", "set_span", "covered-map"),
                  f"covered cells added {sorted(new_cov)}, expected {sorted(rect - {(x, y)})}", case)
        # values
        W = max(bbox(before)[0], bbox(after)[0])
        H = max(len(before["rows"]), len(after["rows"]))
        for j in range(H):
            for i in range(W):
                b, a = at(before, i, j), at(after, i, j)
                if (i, j) in rect and step["merge"]:
                    continue
                ctx.check(same_value(a[0], b[0]) and a[1] == b[1], ("C17", "set_span", "value-changed"),
                          f"set_span(merge={step['merge']}): cell ({i},{j}) was {b!r}, now {a!r}", case)
        if step["merge"]:
            vals = [at(before, i, j)[0] for j in range(y, tt + 1) for i in range(x, z + 1)]
            vals = [v for v in vals if v is not None and v != ""]
            got = at(after, x, y)[0]
            if len(vals) == 0:
                want = at(before, x, y)[0]
            elif len(vals) == 1:
                want = vals[0]
            else:
                want = " ".join(str(v) for v in vals if v)
            ctx.check(same_value(got, want) or (want in (None, "") and got in (None, "")), ("C17", "set_span", "merge-value"),
                      f"merged anchor holds {got!r}, documented concatenation {want!r} of {vals!r}", case)
            for (i, j) in rect - {(x, y)}:
                ctx.check(at(after, i, j)[0] is None, ("C17", "set_span", "merge-leftover"),
                          f"merged cell ({i},{j}) still holds {at(after, i, j)[0]!r}", case)
        lint(ctx, t, case, "set_span")
        fresh_equal(ctx, t, case, "set_span")
        if step.get("undo") and not step["merge"]:
            ok = t.del_span((x, y))
            restored = snap(t)
            ctx.check(ok is True, ("C17", "del_span", "refused"), "del_span on a fresh span returned False", case)
            for j in range(H):
                for i in range(W):
                    ctx.check(cell_eq(at(restored, i, j), at(before, i, j)), ("C17", "del_span", "not-restored"),
                              f"after set_span+del_span cell ({i},{j}) is {at(restored, i, j)!r}, was {at(before, i, j)!r}", case)
            lint(ctx, t, case, "del_span")
            fresh_equal(ctx, t, case, "del_span")


def do_del_span(ctx, t, step, case, labels):
    before = snap(t)
    anchors, _cov = span_facts(before)
    xml0 = t.serialize()
    x, y = step["x"], step["y"]
    with ctx.guard(("C17", "del_span", "exception"), case):
        if anchors and step["pick"] is not None:
            (x, y) = sorted(anchors)[step["pick"] % len(anchors)]
        res = t.del_span((x, y))
        after = snap(t)
        if (x, y) not in anchors:
            ctx.check(res is False and t.serialize() == xml0, ("C17", "del_span", "no-span"),
                      f"del_span(({x},{y})) on a cell without span returned {res} / changed the table", case)
            return
        cs, rs = anchors[(x, y)]
        ctx.check(res is True, ("C17", "del_span", "refused"), "returned False on an anchor", case)
        a2, c2 = span_facts(after)
        rect = {(i, j) for j in range(y, y + rs) for i in range(x, x + cs)}
        ctx.check((x, y) not in a2 and not (c2 & rect), ("C17", "del_span", "leftover"),
                  f"after del_span anchors {sorted(a2)} covered {sorted(c2 & rect)}", case)
        for j in range(len(before["rows"])):
            for i in range(bbox(before)[0]):
                b, a = at(before, i, j), at(after, i, j)
                ctx.check(same_value(a[0], b[0]) and a[1] == b[1], ("C17", "del_span", "value-changed"),
                          f"cell ({i},{j}) was {b!r}, now {a!r}", case)
        lint(ctx, t, case, "del_span")


def csv_canon(v):
    if v is None:
        return ""
    if isinstance(v, str):
        return v.strip()
    return v


def looks_typed(s):
    from datetime import datetime

    for f in (int, float, datetime.fromisoformat):
        try:
            f(s)
            return True
        except ValueError:
            pass
    import re

    return s.lower() in ("true", "false") or bool(re.fullmatch(r"-?P[0-9DTHMS.YW]+", s))


def do_csv(ctx, t, step, case, labels):
    from odfdo.table import import_from_csv

    before = snap(t)
    if has_spans(before):
        return
    with ctx.guard(("C17", "csv", "exception"), case):
        text = t.to_csv()
        want = [[csv_canon(v) for v in row] for row in t.get_values()]
        parsed = list(csv.reader(io.StringIO(text, newline="")))
        flat = [["" if v == "" else str(v) for v in row] for row in want]
        ctx.check(parsed == flat, ("C17", "to_csv", "content"), f"to_csv wrote {parsed!r} for values {want!r}", case)
        if not text.strip() or bbox(before)[0] < 2:
            return
        try:
            t2 = import_from_csv(io.StringIO(text), "T", delimiter=",", quotechar='"')
        except csv.Error:
            ctx.count("csv-sniffer-undetermined")
            return
        got = t2.get_values()
        for y, row in enumerate(want):
            for x, v in enumerate(row):
                g = got[y][x] if y < len(got) and x < len(got[y]) else None
                if isinstance(v, str) and v and looks_typed(v):
                    continue
                ok = same_value(csv_canon(g), v) or (v == "" and g in (None, ""))
                ctx.check(ok, ("C17", "csv", "roundtrip"), f"cell ({x},{y}): {v!r} exported, {g!r} imported back (csv {text!r})", case)
        labels.add("csv")


STEPS = {"rstrip": do_strip, "optimize_width": do_strip, "transpose2": do_transpose, "transpose_area2": do_transpose,
         "set_span": do_span, "del_span": do_del_span, "csv": do_csv}


def run_case(case, ctx):
    labels = set()
    with ctx.guard(("C17", "initial", "exception"), case):
        t, _m = build_initial(case["spec"])
        if case.get("decor"):
            from odfdo import Cell

            for d in case["decor"]:
                # the decoration must not overwrite the cells of a span the initial table already has (the anchor would then
                # claim a cell that is no longer covered: an inconsistent table, not a state the library produced)
                anchors0, covered0 = span_facts(snap(t))
                taken = set(covered0)
                for (ax, ay), (cs, rs) in anchors0.items():
                    taken |= {(i, j) for j in range(ay, ay + rs) for i in range(ax, ax + cs)}
                if any((d["x"] + k, d["y"]) in taken for k in range(max(d["r"], 1))):
                    ctx.count("decor-skipped-on-span")
                    continue
                t.set_cell((d["x"], d["y"]), Cell(VALUES[d["v"]], style=STYLES[d["s"]], repeated=d["r"] if d["r"] > 1 else None))
    for step in case["steps"]:
        STEPS[step["k"]](ctx, t, step, case, labels)
    for lab in labels:
        ctx.count("case:" + lab)
    if labels & {"trailing-empties", "styled-empty", "existing-span", "span-overlap", "ragged-transpose"}:
        ctx.nontrivial(case)


def replay(case, ctx):
    try:
        run_case(case, ctx)
    except Abandon:
        pass


def run_shard(ctx):
    c = st.integers(0, 6)
    step = st.one_of(
        st.fixed_dictionaries({"k": st.just("rstrip"), "aggr": st.booleans()}),
        st.fixed_dictionaries({"k": st.just("optimize_width")}),
        st.fixed_dictionaries({"k": st.just("rstrip"), "aggr": st.booleans(), "probe": st.just(True)}),
        st.fixed_dictionaries({"k": st.just("optimize_width"), "probe": st.just(True)}),
        st.fixed_dictionaries({"k": st.just("transpose2")}),
        st.fixed_dictionaries({"k": st.just("transpose_area2"), "x": st.integers(0, 3), "y": st.integers(0, 3), "n": st.integers(1, 3)}),
        st.fixed_dictionaries({"k": st.just("set_span"), "x": c, "y": c, "dx": st.integers(0, 2), "dy": st.integers(0, 2),
                               "merge": st.booleans(), "undo": st.booleans()}),
        st.fixed_dictionaries({"k": st.just("set_span"), "x": c, "y": c, "dx": st.integers(0, 2), "dy": st.integers(0, 2),
                               "merge": st.just(False), "undo": st.just(False)}),
        st.fixed_dictionaries({"k": st.just("del_span"), "x": c, "y": c, "pick": st.one_of(st.none(), st.integers(0, 5))}),
        st.fixed_dictionaries({"k": st.just("csv")}),
    )
    decor = st.lists(st.fixed_dictionaries({"x": st.integers(0, 7), "y": st.integers(0, 7), "v": st.sampled_from([0, 0, 6, 8, 4, 12]),
                                            "s": st.integers(0, 3), "r": st.integers(1, 4)}), max_size=3)
    cases = st.fixed_dictionaries({"spec": st_initial(()), "decor": decor, "steps": st.lists(step, min_size=1, max_size=6)})

    def mk():
        @given(cases)
        def t(case):
            ctx.ev()
            for s in case["steps"]:
                ctx.count("step:" + s["k"])
            try:
                run_case(case, ctx)
                ctx.maybe_sample(case, 307)
            except Abandon:
                pass
        return t

    ctx.run_given(mk, ctx.budget(12000, 150000))
