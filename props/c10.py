"""C10 - a clone is equal at birth and independent for life."""
from __future__ import annotations

import io
import shutil

from hypothesis import given, strategies as st

from lib import corpus, odfread, paragen
from lib.docmachine import PNG, scratch_dir
from lib.gridmodel import Grid
from lib.harness import Abandon
from lib.tablemachine import COORD_CLS, FORM, FORM1, STYLES, VALUES, Runner, resolve, st_cell, st_initial, st_row

ID = "C10"
RULE = (
    "H over pairs of histories. Tables: run-length description + cache-warming reads and edits, then c = t.clone and an "
    "interleaving of table operations on original and clone (set/insert/append/delete of cells, rows, columns with repeated "
    "arguments, all coordinate classes); rows and cells obtained from such tables and paragraphs from generated layouts, cloned "
    "and edited likewise; documents: templates and corpus samples opened lazily by path, from BytesIO or from a folder, with "
    "optional unsaved edits (body, meta, add_file, del_part, set_part) before doc.clone, then interleaved edits and saves on "
    "both; XmlPart.clone and Container.clone the same way. Oracle: cloning leaves the original's serialisation/read battery "
    "unchanged; at birth the clone serialises and answers exactly like the original (documents: every part, unsaved edits "
    "included); after every operation on one twin the other twin's serialisation is byte-identical to its last snapshot and the "
    "operated twin equals the grid model / expected content (catches symmetric corruption). Non-trivial = >= 1 mutation after "
    "cloning on an object with repeated runs and warmed caches, or on a document with unread parts or unsaved edits; distinct by "
    "case."
    ' Also: unsaved binary edits (set_part / del_part) carry by-construction expectations checked on original and clone rig'
    'ht after cloning; every XML part (content, styles, meta, settings, manifest) as XmlPart twins with part-specific warm-'
    'up reads and edits, each edit visible in its own part; embedded sub-documents (Object N/content.xml) edited before clo'
    'ning; a generator set by the user; both twins saved right after cloning must give the same package; clones of mid-tree'
    ' nodes (paragraph in a section, inline children) keep class, XML and tail.'
)
ASSUMPTIONS = [
    "lib/gridmodel is the reference for the operated twin; serialisations are compared byte for byte for the untouched twin",
    "document parts are compared as C14N for XML parts and bytes otherwise",
]


# ------------------------------------------------------------------ table twins
def st_top():
    k = st.integers(0, 40)
    cell = st_cell()
    row = st_row(maxcells=4, maxrep=3)
    vi = st.integers(0, len(VALUES) - 1)
    si = st.integers(0, len(STYLES) - 1)
    return st.one_of(
        st.fixed_dictionaries({"op": st.just("set_value"), "cx": COORD_CLS, "kx": k, "cy": COORD_CLS, "ky": k, "v": vi, "s": si, "form": FORM}),
        st.fixed_dictionaries({"op": st.just("set_cell"), "cx": COORD_CLS, "kx": k, "cy": COORD_CLS, "ky": k, "cell": cell, "form": FORM}),
        st.fixed_dictionaries({"op": st.just("insert_cell"), "cx": COORD_CLS, "kx": k, "cy": COORD_CLS, "ky": k, "cell": cell, "form": FORM}),
        st.fixed_dictionaries({"op": st.just("append_cell"), "cy": COORD_CLS, "ky": k, "cell": cell, "form": FORM1}),
        st.fixed_dictionaries({"op": st.just("delete_cell"), "cx": COORD_CLS, "kx": k, "cy": COORD_CLS, "ky": k, "form": FORM}),
        st.fixed_dictionaries({"op": st.just("set_row"), "cy": COORD_CLS, "ky": k, "row": row, "form": FORM1}),
        st.fixed_dictionaries({"op": st.just("insert_row"), "cy": COORD_CLS, "ky": k, "row": row, "form": FORM1}),
        st.fixed_dictionaries({"op": st.just("append_row"), "row": row}),
        st.fixed_dictionaries({"op": st.just("delete_row"), "cy": COORD_CLS, "ky": k, "form": FORM1}),
        st.fixed_dictionaries({"op": st.just("insert_column"), "cx": COORD_CLS, "kx": k, "r": st.integers(1, 3), "cs": st.integers(0, 2), "form": FORM1}),
        st.fixed_dictionaries({"op": st.just("delete_column"), "cx": COORD_CLS, "kx": k, "form": FORM1}),
        st.fixed_dictionaries({"op": st.just("set_values"), "cx": COORD_CLS, "kx": k, "cy": COORD_CLS, "ky": k, "s": si, "form": FORM,
                               "matrix": st.lists(st.lists(vi, max_size=3), min_size=1, max_size=2)}),
        st.fixed_dictionaries({"op": st.just("warm"), "k": st.sampled_from(["get_row", "get_cell", "traverse", "get_column", "rows", "get_values",
                                                                            "get_row_noclone", "get_column_cells"]), "kx": k, "ky": k}),
    )


def concretize(op, m):
    op = dict(op)
    if "cx" in op:
        op["x"] = resolve(op.pop("cx"), op["kx"] if "kx" in op else 0, min(m.width, 10))
    if "cy" in op:
        op["y"] = resolve(op.pop("cy"), op["ky"] if "ky" in op else 0, min(m.height, 10))
    return op


def run_table(case, ctx):
    spec, pre, ops = case["spec"], case["pre"], case["ops"]
    ro = Runner(spec, ctx, "C10")
    for op in pre:
        ro.apply(concretize(op, ro.m))
    if ro.dead:
        return
    mutated = False
    with ctx.guard(("C10", "Table.clone", "exception"), case):
        before = ro.t.serialize()
        c = ro.t.clone
        ctx.check(ro.t.serialize() == before, ("C10", "Table.clone", "modifies-original"), "cloning changed the original table", case)
        ctx.check(c.serialize() == before, ("C10", "Table.clone", "not-equal-at-birth"),
                  f"clone serialises differently:\n{before}\n{c.serialize()}", case)
    rc = Runner.__new__(Runner)
    rc.__dict__.update(ro.__dict__)
    rc.t, rc.m, rc.ops, rc.labels = c, ro.m.copy(), list(ro.ops), set()
    rc.battery = ro.battery = "C01"  # judged against the grid model with the full battery
    rc.check()  # the clone answers like the model at birth
    twins = {"o": ro, "c": rc}
    snaps = {"o": ro.t.serialize(), "c": rc.t.serialize()}
    for side, op in ops:
        r = twins[side]
        other = "c" if side == "o" else "o"
        op2 = concretize(op, r.m)
        r.final = True  # full battery for the operated twin
        r.apply({**op2})
        if r.dead:
            return
        if op2["op"] != "warm":
            mutated = True
        now_other = twins[other].t.serialize()
        ctx.check(now_other == snaps[other], ("C10", "Table", "operation-visible-on-twin", op2["op"]),
                  f"{op2['op']} on the {'original' if side == 'o' else 'clone'} changed the other table:\n{snaps[other]}\n{now_other}", case)
        snaps[side] = r.t.serialize()
        # the untouched twin still answers like its own model
        twins[other].final = True
        twins[other].check()
    if mutated and ("repeated" in before):
        ctx.nontrivial(case)


def run_row(case, ctx):
    from odfdo import Cell

    ro = Runner(case["spec"], ctx, "C10")
    if ro.dead or ro.m.height == 0:
        return
    y = case["y"] % ro.m.height
    with ctx.guard(("C10", "Row.clone", "exception"), case):
        t_before = ro.t.serialize()
        src = case.get("src", "get_row")
        if src == "traverse":
            row = list(ro.t.traverse())[y]
        elif src == "rows":
            row = ro.t.rows[y]
        elif src == "get_rows":
            row = ro.t.get_rows()[y]
        else:
            row = ro.t.get_row(y, clone=bool(case["detached"]))
        if src != "get_row":
            case = dict(case, detached=False)  # these getters may hand out the live row (known finding of C08): edit the clone only
        row.get_cell(0)
        list(row.traverse())  # warm the row cache
        c = row.clone
        ctx.check(c.serialize() == row.serialize() and c.get_values() == row.get_values() and c.width == row.width and c.y == row.y,
                  ("C10", "Row.clone", "not-equal-at-birth"), f"{row.serialize()} vs {c.serialize()}", case)
        twins = {"o": (row, list(ro.m.rows[y])), "c": (c, list(ro.m.rows[y]))}
        if not case["detached"]:
            twins.pop("o")  # the live row is only observed, edits go to the clone
        snaps = {"o": row.serialize(), "c": c.serialize()}
        for side, e in case["edits"]:
            if side not in twins:
                side = "c"
            r, mrow = twins[side]
            x = resolve(e["cls"], e["kx"], len(mrow))
            if e["k"] == "set_value":
                r.set_value(x, "E")
                Grid.row_set(mrow, x, ("E", None))
            elif e["k"] == "insert_cell":
                r.insert_cell(x, Cell("I", repeated=e["r"] if e["r"] > 1 else None))
                Grid.row_insert(mrow, x, ("I", None), e["r"])
            elif e["k"] == "delete_cell":
                r.delete_cell(x)
                Grid.row_delete(mrow, x)
            elif e["k"] == "append_cell":
                r.append_cell(Cell("A", repeated=e["r"] if e["r"] > 1 else None))
                mrow.extend([("A", None)] * e["r"])
            else:
                r.clear()
                del mrow[:]
            other = "c" if side == "o" else "o"
            now = (row if other == "o" else c).serialize()
            ctx.check(now == snaps[other], ("C10", "Row", "operation-visible-on-twin", e["k"]),
                      f"Row.{e['k']} on one twin changed the other: {snaps[other]} -> {now}", case)
            snaps[side] = r.serialize()
            got = r.get_values()
            want = [v for v, _s in mrow]
            ctx.check(len(got) == len(want) and all((a == b) for a, b in zip(got, [w if not isinstance(w, float) else w for w in want]))
                      or _vals_equal(got, want), ("C10", "Row", "twin-differs-from-model", e["k"]),
                      f"after Row.{e['k']}: {got!r}, expected {want!r}", case)
            ctx.check(ro.t.serialize() == t_before or not case["detached"], ("C10", "Row", "table-changed"),
                      "editing a detached row / its clone changed the table", case)
        if not case["detached"]:
            ctx.check(ro.t.serialize() == t_before, ("C10", "Row", "clone-of-live-row-aliases-table"),
                      "editing the clone of a live row changed the table", case)
        # attach the clone to another table and keep editing it there: the table the original came from must not notice
        if case.get("attach"):
            from odfdo import Table

            t2 = Table("U", width=2, height=2)
            how = case["attach"]
            back = t2.append_row(c) if how["via"] == "append_row" else (t2.set_row(0, c) if how["via"] == "set_row" else t2.insert_row(1, c))
            back.repeated = how["r"]
            back.set_value(0, "attached")
            t2.get_values()
            ctx.check(ro.t.serialize() == t_before, ("C10", "Row", "attached-clone-changes-source-xml"),
                      "editing a clone attached to another table changed the XML of the table the original row came from", case)
            ro.battery = "C01"
            ro.final = True
            sizes = (ro.t.size, ro.t.height, ro.t.width)
            ctx.check(sizes == ((ro.m.width, ro.m.height), ro.m.height, ro.m.width), ("C10", "Row", "attached-clone-corrupts-source-table"),
                      f"after row{('.clone' if True else '')} -> {how['via']} on another table -> repeated={how['r']}: the source table reports "
                      f"{sizes}, its grid is {(ro.m.width, ro.m.height)}", case)
            ro.check()
    ctx.nontrivial(case)


def _vals_equal(got, want):
    from lib.gridmodel import read_value, same_value

    return len(got) == len(want) and all(same_value(a, read_value(b)) for a, b in zip(got, want))


def run_paragraph(case, ctx):
    with ctx.guard(("C10", "Element.clone", "exception"), case):
        p = paragen.build_paragraph(case["layout"], case.get("pk", "p"))
        before = p.serialize()
        c = p.clone
        ctx.check(p.serialize() == before and c.serialize() == before and type(c) is type(p), ("C10", "Element.clone", "not-equal-at-birth"),
                  f"{before} vs {c.serialize()}", case)
        # clones of nodes in the middle of the tree: same class, same XML, same tail (what follows the element inside its
        # parent: a blank between two spans is text), a root of their own
        from odfdo import Element

        host = Element.from_tag("text:section")
        host.append(p.clone)
        hp = host.children[0]
        hp.tail = "\n  "
        mids = [hp] + [k for k in hp.children][:6]
        blanks = [" ", "\n", "\t", "   ", None, "x y"]
        for i, k in enumerate(mids[1:]):
            if not k.tail:
                k.tail = blanks[(i + len(before)) % len(blanks)]
        host_before = host.serialize()
        for k in mids:
            kc = k.clone
            ctx.check(type(kc) is type(k) and kc.serialize() == k.serialize(), ("C10", "Element.clone", "not-equal-at-birth"),
                      f"clone of a mid-tree <{k.tag}>: {kc.serialize()!r} vs {k.serialize()!r}", case)
            ctx.check((kc.tail or "") == (k.tail or "") and kc.text_recursive == k.text_recursive, ("C10", "Element.clone", "tail-not-equal-at-birth"),
                      f"clone of a mid-tree <{k.tag}>: tail {kc.tail!r} vs {k.tail!r}, text_recursive {kc.text_recursive!r} vs {k.text_recursive!r}", case)
            ctx.check(kc.parent is None or kc.parent.tag != k.parent.tag or kc.parent.serialize() != k.parent.serialize(), ("C10", "Element.clone", "shares-parent"),
                      "the clone sits in the original's parent", case)
            kc.tail = "CLONE-TAIL"
            kc.set_attribute("text:style-name", "clone-only")
        ctx.check(host.serialize() == host_before, ("C10", "Element", "operation-visible-on-twin", "mid-tree"),
                  "editing clones of mid-tree nodes changed the original tree", case)
        twins = {"o": p, "c": c}
        snaps = {"o": before, "c": before}
        for n, (side, e) in enumerate(case["edits"]):
            el = twins[side]
            other = "c" if side == "o" else "o"
            try:
                _edit_paragraph(el, e, n)
            except ValueError:
                ctx.count("paragraph-edit-rejected")  # e.g. a position beyond the text: documented ValueError
            now = twins[other].serialize()
            ctx.check(now == snaps[other], ("C10", "Element", "operation-visible-on-twin", e),
                      f"{e} on one twin changed the other: {snaps[other]} -> {now}", case)
            snaps[side] = el.serialize()
    ctx.nontrivial(case)


def _edit_paragraph(el, e, n):
    if e == "append":
        el.append(f" more{n}  x")
    elif e == "span":
        el.set_span(f"S{n}", regex="a")
    elif e == "bookmark":
        el.set_bookmark(f"b{n}", position=1)
    elif e == "replace":
        el.replace("a", "Z")
    elif e == "clear":
        el.clear()
    elif e == "style":
        el.style = f"st{n}"
    elif e == "child":
        ch = el.children
        if ch:
            ch[0].tail = "T"
            ch[0].set_attribute("text:style-name", "zz")


# ------------------------------------------------------------------ documents
def doc_snapshot(doc):
    out = {}
    for short in ("content", "styles", "meta", "settings", "manifest"):
        out[short] = odfread.c14n(doc.get_part(short).serialize())
    for name in sorted(doc.container.get_parts() if doc.container else []):
        if name.endswith("/") or name in ("content.xml", "styles.xml", "meta.xml", "settings.xml", "META-INF/manifest.xml"):
            continue
        try:
            if name.endswith(("/content.xml", "/styles.xml", "/meta.xml", "/settings.xml")) and not name.startswith("META-INF"):
                # sub-document of an embedded object: the document may hold it parsed (and edited)
                out[name] = odfread.c14n(doc.get_part(name).serialize())
            else:
                out[name] = doc.container.get_part(name)
        except ValueError:
            out[name] = "deleted"
    return out


def open_source(src, scratch):
    from odfdo import Document

    if src["kind"] == "template":
        return Document(src["name"])
    data = (corpus.samples_dir() / src["name"]).read_bytes()
    if src["how"] == "bytesio":
        return Document(io.BytesIO(data))
    if src["how"] == "path":
        p = scratch / ("src-" + src["name"])
        p.write_bytes(data)
        return Document(str(p))
    import zipfile

    folder = scratch / ("src-" + src["name"] + ".folder")
    shutil.rmtree(folder, ignore_errors=True)
    with zipfile.ZipFile(io.BytesIO(data)) as z:
        for info in z.infolist():
            target = folder / info.filename
            if info.filename.endswith("/"):
                target.mkdir(parents=True, exist_ok=True)
            else:
                target.parent.mkdir(parents=True, exist_ok=True)
                target.write_bytes(z.read(info.filename))
    return Document(str(folder))


def doc_edit(doc, e, n):
    """-> token expected in the named part afterwards (or None)"""
    from odfdo import Paragraph

    k = e["k"]
    if k == "paragraph":
        doc.body.append(Paragraph(f"CLONETOK{n}"))
        return ("content", f"CLONETOK{n}")
    if k == "meta":
        doc.meta.title = f"CLONETOK{n}"
        return ("meta", f"CLONETOK{n}")
    if k == "add_file":
        doc.add_file(io.BytesIO(PNG + bytes([n % 3])))
        return None
    if k == "set_part":
        data = b"T" + bytes([n % 250])
        doc.set_part("Thumbnails/thumbnail.png", data)
        return ("bin", "Thumbnails/thumbnail.png", data)
    if k == "del_part":
        names = [x for x in doc.get_parts() if x.startswith(("Thumbnails/", "Pictures/"))]
        if names:
            doc.del_part(sorted(names)[0])
            return ("deleted", sorted(names)[0], None)
        return None
    if k == "generator":
        doc.meta.generator = f"custom generator {n}"
        return ("meta", f"custom generator {n}")
    if k == "object":
        # an embedded sub-document (chart...) edited through the document
        names = sorted(x for x in doc.get_parts() if x.count("/") == 1 and x.endswith("/content.xml") and not x.startswith("META-INF"))
        if names:
            from odfdo import Element

            part = doc.get_part(names[0])
            el = Element.from_tag("text:p")
            el.text = f"CLONETOK{n}"
            part.root.append(el)
            return (names[0], f"CLONETOK{n}")
        return None
    if k == "read":
        doc.styles.root  # noqa: B018
        doc.get_part("settings").root  # noqa: B018
        return None
    if k == "save":
        doc.save(io.BytesIO())
        return None
    return None


def part_warm(part, short, w):
    """reads that may leave cached references inside the part object"""
    if w == "root":
        part.root  # noqa: B018
    elif w == "body" and short == "content":
        part.body  # noqa: B018
    elif w == "getters":
        if short == "meta":
            part.get_meta_body()
            part.get_title(), part.get_subject(), part.get_description(), part.get_keywords(), part.get_user_defined_metadata()
        elif short == "styles":
            part.get_styles(), part.get_master_pages()
        elif short == "content":
            part.get_styles()
        elif short == "manifest":
            part.get_paths(), part.get_path_medias()
    elif w == "edit":
        part_edit(part, short, 1, "WARMTOKq")
    elif w == "serialize":
        part.serialize()


def part_edit(part, short, ek, tok):
    from odfdo import Element, Paragraph

    if short == "meta":
        k = ek % 8
        if k == 0:
            part.set_title(tok)
        elif k == 1:
            part.set_subject(tok)
        elif k == 2:
            part.set_description(tok)
        elif k == 3:
            part.set_initial_creator(tok)
        elif k == 4:
            part.set_keywords(tok)
        elif k == 5:
            part.set_user_defined_metadata(tok, tok)
        elif k == 6:
            part.creator = tok
        else:
            part.set_generator(tok)
    elif short == "content":
        if ek % 2:
            part.body.append(Paragraph(tok))
        else:
            part.root.get_element("//office:automatic-styles").append(
                Element.from_tag(f'<style:style style:name="{tok}" style:family="paragraph"/>'))
    elif short == "styles":
        part.root.get_element("//office:styles").append(Element.from_tag(f'<style:style style:name="{tok}" style:family="paragraph"/>'))
    elif short == "manifest":
        part.add_full_path(tok, "text/plain")
    else:
        part.root.append(Element.from_tag(f'<config:config-item-set config:name="{tok}"/>'))


def run_document(case, ctx):
    scratch = scratch_dir(f"C10-{ctx.shard}")
    try:
        with ctx.guard(("C10", "Document", "exception"), case):
            doc = open_source(case["source"], scratch)
            toks = []
            binary = {}  # name -> bytes | None (deleted): what the unsaved edits made of the binary parts, known by construction
            for n, e in enumerate(case["pre"]):
                t = doc_edit(doc, e, n)
                if t and len(t) == 3:
                    binary[t[1]] = t[2]
                elif t:
                    toks.append(t)
            which = case["what"]

            def check_binary(holder, who, sig_tail):
                for name, data in binary.items():
                    try:
                        got = holder.get_part(name)
                    except Exception:
                        got = None
                    ctx.check(got == data, ("C10", who, sig_tail), f"{name}: unsaved {'deletion' if data is None else 'set_part'} before cloning, "
                              f"afterwards the {who} holds {None if got is None else got[:12]!r}, expected {None if data is None else data[:12]!r}", case)
            if which == "document":
                c = doc.clone
                check_binary(doc.container, "Document.clone original", "modifies-original")
                check_binary(c.container, "Document.clone clone", "not-equal-at-birth-binary")
                before = doc_snapshot(doc)  # taken after: forces no load before cloning (lazy parts stay unread)
                birth = doc_snapshot(c)
                ctx.check(set(birth) == set(before), ("C10", "Document.clone", "parts-differ-at-birth"),
                          f"parts only in original {sorted(set(before) - set(birth))}, only in clone {sorted(set(birth) - set(before))}", case)
                for name in sorted(set(birth) & set(before)):
                    ctx.check(birth[name] == before[name], ("C10", "Document.clone", "not-equal-at-birth", name),
                              f"part {name} of the clone differs from the original at birth (unsaved edits: {[e['k'] for e in case['pre']]})", case)
                for part, tok in toks:
                    if part == "meta" and any(t2[0] == "meta" and t2 is not (part, tok) for t2 in toks[toks.index((part, tok)) + 1:]):
                        continue
                    ctx.check(tok.encode() in c.get_part(part).serialize(), ("C10", "Document.clone", "unsaved-edit-missing"),
                              f"edit {tok} made before cloning is not in the clone's {part}", case)
                if case.get("save_both", True):
                    # indistinguishable when taken: saved right away, both give the same package
                    def saved(d):
                        buf = io.BytesIO()
                        d.save(buf)
                        return {k_.replace("\\", "/"): v for k_, v in odfread.read_zip(buf.getvalue())[1].items()}

                    so, sc = saved(doc), saved(c)
                    ctx.check(set(so) == set(sc), ("C10", "Document.clone", "saved-parts-differ"),
                              f"saved right after cloning: only original {sorted(set(so) - set(sc))}, only clone {sorted(set(sc) - set(so))}", case)
                    for name in sorted(set(so) & set(sc)):
                        if name.endswith("/"):
                            continue
                        same_ = (odfread.c14n(so[name]) == odfread.c14n(sc[name])) if name.endswith(".xml") and so[name].strip() and sc[name].strip() else so[name] == sc[name]
                        ctx.check(same_, ("C10", "Document.clone", "saved-differs", name.split("/")[-1]),
                                  f"{name} saved from the clone differs from {name} saved from the original right after cloning "
                                  f"(unsaved edits: {[e['k'] for e in case['pre']]})", case)
                    for part, tok in toks:
                        if part in so and part != "meta":
                            ctx.check(tok.encode() in so[part] and tok.encode() in sc[part], ("C10", "Document.clone", "unsaved-edit-missing"),
                                      f"edit {tok} of {part} made before cloning: in saved original {tok.encode() in so[part]}, in saved clone {tok.encode() in sc[part]}", case)
                    before = doc_snapshot(doc)
                    birth = doc_snapshot(c)
                twins = {"o": doc, "c": c}
                snaps = {"o": before, "c": birth}
                for n, (side, e) in enumerate(case["edits"]):
                    other = "c" if side == "o" else "o"
                    doc_edit(twins[side], e, 100 + n)
                    now = doc_snapshot(twins[other])
                    changed = [k for k in now if now[k] != snaps[other].get(k)] + [k for k in snaps[other] if k not in now]
                    ctx.check(not changed, ("C10", "Document", "operation-visible-on-twin", e["k"]),
                              f"{e['k']} on the {'original' if side == 'o' else 'clone'} changed {changed} of the other document", case)
                    snaps[side] = doc_snapshot(twins[side])
            elif which == "xmlpart":
                short = case.get("part", "content")
                part = doc.get_part(short)
                for w in case.get("pwarm", ["root"]):
                    part_warm(part, short, w)
                s0 = part.serialize()
                c = part.clone
                ctx.check(part.serialize() == s0, ("C10", "XmlPart.clone", "modifies-original", short), "", case)
                ctx.check(odfread.c14n(c.serialize()) == odfread.c14n(s0), ("C10", "XmlPart.clone", "not-equal-at-birth", short),
                          f"clone of {short}: serialize() differs from the original (unsaved edits lost?)", case)
                ctx.check(type(c) is type(part), ("C10", "XmlPart.clone", "class", short), f"clone of {type(part).__name__} is {type(c).__name__}", case)
                ctx.check(len(c.root.get_elements("//*")) == len(part.root.get_elements("//*")),
                          ("C10", "XmlPart.clone", "root-vs-serialize", short), "clone.root and original disagree on the element count", case)
                twins = {"o": part, "c": c}
                snaps = {"o": part.serialize(), "c": c.serialize()}
                for n, (side, ek) in enumerate(case.get("pedits", [("c", 0), ("o", 0)])):
                    other = "c" if side == "o" else "o"
                    tok = f"PARTTOK{n}x"
                    part_edit(twins[side], short, ek, tok)
                    ctx.check(twins[other].serialize() == snaps[other], ("C10", "XmlPart", "operation-visible-on-twin", short),
                              f"edit #{ek} of the {'original' if side == 'o' else 'clone'} {short} part changed the other one", case)
                    now = twins[side].serialize()
                    ctx.check(tok.encode() in now, ("C10", "XmlPart", "edit-lost", short),
                              f"edit #{ek} ({tok}) of the {'original' if side == 'o' else 'clone'} {short} part is not in its own serialisation", case)
                    ctx.check(tok.encode() in twins[side].root.serialize().encode(), ("C10", "XmlPart.clone", "root-vs-serialize", short),
                              f"edit #{ek} ({tok}) not visible through .root of the edited part", case)
                    snaps[side] = now
            else:  # container
                cont = doc.container
                names0 = sorted(cont.get_parts())
                c = cont.clone
                check_binary(cont, "Container.clone original", "modifies-original")
                check_binary(c, "Container.clone clone", "not-equal-at-birth-binary")
                ctx.check(sorted(c.get_parts()) == sorted(n for n in names0), ("C10", "Container.clone", "parts-differ-at-birth"),
                          f"{sorted(set(names0) ^ set(c.get_parts()))}", case)
                for name in names0:
                    if name.endswith("/"):
                        continue
                    try:
                        a = cont.get_part(name)
                    except ValueError:
                        a = "deleted"
                    try:
                        b = c.get_part(name)
                    except ValueError:
                        b = "deleted"
                    ctx.check(a == b, ("C10", "Container.clone", "not-equal-at-birth"), f"part {name} differs at birth", case)
                c.set_part("mimetype", b"application/x-changed")
                c.set_part("content.xml", b"<x/>")
                c.del_part("styles.xml")
                ctx.check(cont.get_part("content.xml") != b"<x/>" and cont.mimetype != "application/x-changed" and cont.get_part("styles.xml"),
                          ("C10", "Container", "operation-visible-on-twin"), "editing the cloned container changed the original", case)
                keep = c.get_part("meta.xml")
                cont.set_part("meta.xml", b"<y/>")
                ctx.check(c.get_part("meta.xml") == keep, ("C10", "Container", "operation-visible-on-twin"), "editing the original container changed the clone", case)
        if case["source"].get("how") in ("path", "folder") or case["pre"]:
            ctx.nontrivial(case)
    finally:
        shutil.rmtree(scratch, ignore_errors=True)


def run_case(case, ctx):
    {"table": run_table, "row": run_row, "paragraph": run_paragraph, "document": run_document}[case["kind"]](case, ctx)


def replay(case, ctx):
    try:
        run_case(case, ctx)
    except Abandon:
        pass


def run_shard(ctx):
    side = st.sampled_from(["o", "c"])
    top = st_top()
    tcases = st.fixed_dictionaries({"kind": st.just("table"), "spec": st_initial(()), "pre": st.lists(top, max_size=5),
                                    "ops": st.lists(st.tuples(side, top), min_size=1, max_size=6)})
    redit = st.fixed_dictionaries({"k": st.sampled_from(["set_value", "insert_cell", "delete_cell", "append_cell", "clear"]),
                                   "cls": COORD_CLS, "kx": st.integers(0, 20), "r": st.integers(1, 3)})
    rcases = st.fixed_dictionaries({"kind": st.just("row"), "spec": st_initial(()), "y": st.integers(0, 9), "detached": st.booleans(),
                                    "src": st.sampled_from(["get_row", "get_row", "traverse", "rows", "get_rows"]),
                                    "attach": st.one_of(st.none(), st.fixed_dictionaries({"via": st.sampled_from(["append_row", "set_row", "insert_row"]),
                                                                                          "r": st.integers(2, 4)})),
                                    "edits": st.lists(st.tuples(side, redit), min_size=1, max_size=4)})
    pcases = st.fixed_dictionaries({"kind": st.just("paragraph"), "layout": paragen.st_layout(), "pk": st.sampled_from(["p", "h"]),
                                    "edits": st.lists(st.tuples(side, st.sampled_from(["append", "span", "bookmark", "replace", "clear", "style", "child"])),
                                                      min_size=1, max_size=4)})

    def mk(cases, fix=None):
        def make():
            @given(cases)
            def t(case):
                ctx.ev()
                if fix:
                    case = fix(case)
                ctx.count("kind:" + case["kind"])
                try:
                    run_case(case, ctx)
                    ctx.maybe_sample(case, 1501)
                except Abandon:
                    pass
            return t
        return make

    ctx.run_given(mk(tcases), ctx.budget(3200, 30000), salt=1)
    ctx.run_given(mk(rcases), ctx.budget(5000, 30000), salt=2)
    ctx.run_given(mk(pcases), ctx.budget(4000, 30000), salt=3)

    srcs = [{"kind": "template", "name": t} for t in corpus.TEMPLATES]
    for p in corpus.sample_files():
        if p.stat().st_size < (400_000 if ctx.thorough else 40_000):
            for how in ("path", "bytesio", "folder"):
                srcs.append({"kind": "sample", "name": p.name, "how": how})
    dedit = st.fixed_dictionaries({"k": st.sampled_from(["paragraph", "meta", "add_file", "set_part", "del_part", "read", "save", "generator", "object"])})
    dcases = st.fixed_dictionaries({"kind": st.just("document"), "source": st.sampled_from(srcs), "what": st.sampled_from(["document", "document", "xmlpart", "xmlpart", "container"]),
                                    "pre": st.lists(dedit, max_size=3), "edits": st.lists(st.tuples(side, dedit), min_size=1, max_size=4),
                                    "part": st.sampled_from(["content", "styles", "meta", "meta", "settings", "manifest"]),
                                    "pwarm": st.lists(st.sampled_from(["root", "body", "getters", "edit", "serialize"]), max_size=3),
                                    "pedits": st.lists(st.tuples(side, st.integers(0, 7)), min_size=1, max_size=5), "save_both": st.booleans()})
    ctx.run_given(mk(dcases), ctx.budget(1600, 10000), salt=4)
