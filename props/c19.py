"""C19 - all ways of addressing cells agree; written addresses parse back."""
from __future__ import annotations

import itertools
import string

from hypothesis import given, strategies as st

from lib import odfread
from lib.gridmodel import read_value, same_value
from lib.harness import Abandon
from lib.tablemachine import alpha, build_initial, st_initial

ID = "C19"
RULE = (
    "E: alpha_to_digit/digit_to_alpha bijection for n=0..20000 (thorough 500000) and every letter string up to length 3 "
    "(thorough 4), against an independent bijective base-26. H: on tables from run-length descriptions, every "
    "coordinate-taking getter and mutator is called with the tuple form, the list form, the 'C4'/'A1:B3'/'A:C'/'1:4' "
    "string form and the negative-index form; results (values, styles, stamped x/y, resulting XML) must be identical and "
    "bounded ranges must return exactly the cells of the rectangle clipped to the table, per the grid model. Named ranges: "
    "for generated table names accepted by the name check and all area forms, NamedRange -> serialize -> from_tag keeps "
    "name, table_name, start, end, crange, usage; renaming a table in a document rewrites exactly the named ranges that "
    "pointed to it. Non-trivial = range strictly inside the table on at least one side, or a table name containing a "
    "dot/blank/apostrophe/$; distinct by (table spec, method, coordinates) or (table name, area)."
    " Also named ranges carrying usage attributes (single value, list of values, 'none', absent; half of the cases through "
    'save+reload) that must survive a table rename.'
)
ASSUMPTIONS = [
    "the tuple form is the reference for form-equivalence; lib/gridmodel gives the expected content of a clipped rectangle",
    "negative coordinates only in -size..-1",
    "named-range table names are those accepted by the table-name check (no control characters)",
]


def base26(n):
    n += 1
    out = ""
    while n > 0:
        n, r = divmod(n - 1, 26)
        out = string.ascii_uppercase[r] + out
    return out


def unbase26(s):
    v = 0
    for c in s.upper():
        v = v * 26 + (ord(c) - 64)
    return v - 1


def cellsig(c):
    return (c.get_value(), c.style, c.x, c.y, c.repeated)


def eq(a, b):
    if isinstance(a, (list, tuple)) and isinstance(b, (list, tuple)):
        return len(a) == len(b) and all(eq(x, y) for x, y in zip(a, b))
    if isinstance(a, (list, tuple)) or isinstance(b, (list, tuple)):
        return False
    return same_value(a, b)


# ----------------------------------------------------------- getters under forms
def forms_xy(x, y, w, h):
    out = {"tuple": (x, y), "list": [x, y], "str": f"{alpha(x)}{y + 1}"}
    if 0 <= x < w and 0 <= y < h:
        out["neg"] = (x - w, y - h)
    return out


def forms_area(x, y, z, t, w, h):
    out = {"tuple": (x, y, z, t), "list": [x, y, z, t], "str": f"{alpha(x)}{y + 1}:{alpha(z)}{t + 1}",
           "str-spaces": f" {alpha(x)}{y + 1} : {alpha(z)}{t + 1} ", "str-lower": f"{alpha(x).lower()}{y + 1}:{alpha(z).lower()}{t + 1}"}
    if 0 <= x < w and 0 <= z < w and 0 <= y < h and 0 <= t < h:
        out["neg"] = (x - w, y - h, z - w, t - h)
    return out


def check_getters(ctx, spec, x, y, dx, dy):
    t, m = build_initial(spec)
    w, h = m.width, m.height
    z, tt = x + dx, y + dy
    case = {"kind": "getters", "spec": spec, "x": x, "y": y, "dx": dx, "dy": dy}
    inside = (0 < x or z < w - 1 or 0 < y or tt < h - 1) and x < w and y < h
    if inside:
        ctx.nontrivial(("g", spec, x, y, dx, dy))
    ctx.count("getter-case-inside" if inside else "getter-case-other")

    def same(method, results, ref="tuple"):
        base = results[ref]
        for form, got in results.items():
            ctx.check(eq(got, base), ("C19", method, "form-disagrees", form),
                      f"{method}: form {form} gives {got!r}, tuple form gives {base!r}", case)

    with ctx.guard(("C19", "getter", "exception"), case):
        # single cell -------------------------------------------------------
        f = forms_xy(x, y, w, h)
        same("get_value", {k: t.get_value(c) for k, c in f.items()})
        same("get_cell", {k: cellsig(t.get_cell(c)) for k, c in f.items()})
        wv = m.cell(x, y)
        ctx.check(same_value(t.get_value(f["str"]), read_value(wv[0])), ("C19", "get_value", "str-vs-grid"),
                  f"get_value({f['str']!r}) = {t.get_value(f['str'])!r}, grid {wv!r}", case)
        # a range whose ends are swapped bounds nothing: no method returns anything for it, whatever the distance
        for gap in (1, 2, dx + 1):
            x2, y2 = x + gap, y + gap
            sw = {
                "get_columns(tuple)": lambda: t.get_columns((x2, x)),
                "get_columns(str)": lambda: t.get_columns(f"{alpha(x2)}:{alpha(x)}"),
                "traverse_columns": lambda: list(t.traverse_columns(x2, x)),
                "get_rows(tuple)": lambda: t.get_rows((y2, y)),
                "get_rows(str)": lambda: t.get_rows(f"{y2 + 1}:{y + 1}"),
                "traverse": lambda: list(t.traverse(y2, y)),
                "get_cells(4-tuple columns swapped)": lambda: [c_ for r_ in t.get_cells((x2, y, x, y2)) for c_ in r_],
                "get_values(4-tuple rows swapped)": lambda: [v_ for r_ in t.get_values((x, y2, x2, y)) for v_ in r_],
            }
            for label, fn in sw.items():
                got = fn()
                ctx.check(len(got) == 0, ("C19", label.split("(")[0], "swapped-range-not-empty"),
                          f"{label} with ends swapped ({x2} > {x} / {y2} > {y}) returned {len(got)} item(s)", case)
        # rows / columns by single index --------------------------------------
        ry = {"int": y, "str": str(y + 1)}
        if 0 <= y < h:
            ry["neg"] = y - h
        same("get_row", {k: (t.get_row(c).get_values(), t.get_row(c).y) for k, c in ry.items()}, "int")
        if y < h:
            same("get_row_values", {k: t.get_row_values(c) for k, c in ry.items()}, "int")
        rx = {"int": x, "str": alpha(x), "str-lower": alpha(x).lower()}
        if 0 <= x < w:
            rx["neg"] = x - w
        same("get_column_values", {k: t.get_column_values(c) for k, c in rx.items()}, "int")
        same("get_column", {k: (t.get_column(c).style, t.get_column(c).x) for k, c in rx.items()}, "int")
        same("get_column_cells", {k: [cellsig(c_) if c_ is not None else None for c_ in t.get_column_cells(c)] for k, c in rx.items()}, "int")
        if y < h:
            row = t.get_row(y)
            rw = row.width
            rrx = {"int": x, "str": alpha(x)}
            if 0 <= x < rw:
                rrx["neg"] = x - rw
            same("Row.get_cell", {k: cellsig(row.get_cell(c)) for k, c in rrx.items()}, "int")
            same("Row.get_value", {k: row.get_value(c) for k, c in rrx.items()}, "int")
            rr = {"tuple": (x, z), "str": f"{alpha(x)}:{alpha(z)}", "str-full": f"{alpha(x)}{y + 1}:{alpha(z)}{y + 1}"}
            same("Row.get_values", {k: row.get_values(c) for k, c in rr.items()})
            same("Row.get_cells", {k: [cellsig(c_) for c_ in row.get_cells(c)] for k, c in rr.items()})
            wantr = [read_value(c_[0]) for c_ in m.rows[y][x:z + 1]]
            ctx.check(eq(row.get_values(rr["str"]), wantr), ("C19", "Row.get_values", "range-bounds"),
                      f"Row.get_values({rr['str']!r}) = {row.get_values(rr['str'])!r}, grid {wantr!r}", case)
        # areas ----------------------------------------------------------------
        fa = forms_area(x, y, z, tt, w, h)
        same("get_values", {k: t.get_values(c) for k, c in fa.items()})
        same("iter_values", {k: [list(r) for r in t.iter_values(c)] for k, c in fa.items()})
        same("get_cells", {k: [[cellsig(c_) for c_ in r] for r in t.get_cells(c)] for k, c in fa.items()})
        same("get_cells-flat", {k: [cellsig(c_) for c_ in t.get_cells(c, flat=True)] for k, c in fa.items()})
        want = m.area_values(x, y, z, tt)
        got = t.get_values(fa["str"])
        ctx.check(eq(got, want), ("C19", "get_values", "range-bounds"),
                  f"get_values({fa['str']!r}) = {got!r}; rectangle clipped to the table is {want!r}", case)
        cells = t.get_cells(fa["str"])
        wantc = [[(read_value(c_[0]), c_[1]) for c_ in m.rows[yy][x:z + 1]] for yy in range(y, min(tt + 1, h))]
        gotc = [[(c_.get_value(), c_.style) for c_ in r] for r in cells]
        ctx.check(eq(gotc, wantc), ("C19", "get_cells", "range-bounds"),
                  f"get_cells({fa['str']!r}) = {gotc!r}; grid rectangle {wantc!r}", case)
        stamps = [[(c_.x, c_.y) for c_ in r] for r in cells]
        wants = [[(xx, yy) for xx in range(x, x + len(r))] for yy, r in zip(range(y, y + len(cells)), cells)]
        ctx.check(stamps == wants, ("C19", "get_cells", "xy-stamps"), f"stamps {stamps!r} expected {wants!r}", case)
        # row ranges ------------------------------------------------------------
        fr = {"tuple": (y, tt), "list": [y, tt], "str": f"{y + 1}:{tt + 1}", "area": (0, y, max(w - 1, 0), tt),
              "str-area": f"A{y + 1}:{alpha(max(w - 1, 0))}{tt + 1}"}
        if 0 <= y < h and 0 <= tt < h:
            fr["neg"] = (y - h, tt - h)
        res = {k: [(r.get_values(), r.y) for r in t.get_rows(c)] for k, c in fr.items()}
        same("get_rows", res)
        wantrows = [([read_value(c_[0]) for c_ in m.rows[yy]], yy) for yy in range(y, min(tt + 1, h))]
        ctx.check(eq(res["str"], wantrows), ("C19", "get_rows", "range-bounds"),
                  f"get_rows({fr['str']!r}) = {res['str']!r}; rows {y}..{tt} of the grid are {wantrows!r}", case)
        # column ranges ----------------------------------------------------------
        fc = {"tuple": (x, z), "list": [x, z], "str": f"{alpha(x)}:{alpha(z)}", "area": (x, 0, z, max(h - 1, 0))}
        if 0 <= x < w and 0 <= z < w:
            fc["neg"] = (x - w, z - w)
        res = {k: [(c_.style, c_.x, c_.repeated) for c_ in t.get_columns(c)] for k, c in fc.items()}
        same("get_columns", res)
        wantcols = [(m.cols[xx], xx, None) for xx in range(x, min(z + 1, w))]
        ctx.check(res["str"] == wantcols, ("C19", "get_columns", "range-bounds"),
                  f"get_columns({fc['str']!r}) = {res['str']!r}; columns {x}..{z} of the grid are {wantcols!r}", case)
        ctx.check(res["tuple"] == wantcols, ("C19", "get_columns", "range-bounds-tuple"),
                  f"get_columns({fc['tuple']!r}) = {res['tuple']!r}; expected {wantcols!r}", case)


def check_mutators(ctx, spec, x, y, dx, dy, which):
    case = {"kind": "mutators", "spec": spec, "x": x, "y": y, "dx": dx, "dy": dy, "which": which}
    from odfdo import Cell

    _t, m = build_initial(spec)
    w, h = m.width, m.height
    z, tt = x + dx, y + dy
    f = forms_xy(x, y, w, h)
    fa = forms_area(x, y, z, tt, w, h)
    fa = {k: v for k, v in fa.items() if k in ("tuple", "list", "str", "neg")}
    out = {}
    ctx.nontrivial(("m", spec, x, y, dx, dy, which))
    with ctx.guard(("C19", which, "exception"), case):
        forms = fa if which in ("set_values-area", "set_span", "transpose") else f
        for form, c in forms.items():
            t, _m = build_initial(spec)
            if which == "set_value":
                t.set_value(c, "Z", style="zz")
            elif which == "set_cell":
                t.set_cell(c, Cell(7, repeated=2))
            elif which == "insert_cell":
                t.insert_cell(c, Cell("I"))
            elif which == "delete_cell":
                t.delete_cell(c)
            elif which == "set_values":
                t.set_values([[1, 2], [3, 4]], coord=c)
            elif which == "set_values-area":
                t.set_values([[1, 2], [3, 4]], coord=c)
            elif which == "set_cells":
                t.set_cells([[Cell(1), Cell(2)], [Cell(3)]], coord=c)
            elif which == "set_span":
                t.set_span(c)
            elif which == "transpose":
                if not (z < w and tt < h):
                    return
                t.transpose(c)
            out[form] = t.serialize()
    for form, xml in out.items():
        ctx.check(xml == out["tuple"], ("C19", which, "form-disagrees", form),
                  f"{which} with form {form} ({forms[form]!r}) gives a different table than the tuple form {forms['tuple']!r}", case)


# ----------------------------------------------------------- named ranges
TN_ALPHA = list("abZ9_ .'$-é中&<\"")


def check_named_range(ctx, tname, x, y, dx, dy, form, usage):
    from odfdo import Element
    from odfdo.table import NamedRange

    case = {"kind": "named-range", "table": tname, "x": x, "y": y, "dx": dx, "dy": dy, "form": form, "usage": usage}
    z, t = x + dx, y + dy
    if dx == 0 and dy == 0 and form in ("cell-str", "cell-tuple"):
        crange = f"{alpha(x)}{y + 1}" if form == "cell-str" else (x, y)
    elif form in ("str", "cell-str"):
        crange = f"{alpha(x)}{y + 1}:{alpha(z)}{t + 1}"
    else:
        crange = (x, y, z, t)
    try:
        nr = NamedRange("nr_1", crange, tname, usage)
    except (ValueError, TypeError):
        ctx.count("named-range-table-name-rejected")
        return
    stored = tname.strip()
    if set(stored) & set(" .'$"):
        ctx.nontrivial(("nr", tname, x, y, dx, dy, form))
    ctx.count("named-range-accepted")
    with ctx.guard(("C19", "NamedRange", "exception"), case):
        want = (stored, (x, y), (z, t), (x, y, z, t), usage)
        got0 = (nr.table_name, tuple(nr.start), tuple(nr.end), tuple(nr.crange), nr.usage)
        ctx.check(got0 == want, ("C19", "NamedRange", "attributes"), f"constructed: {got0!r}, expected {want!r}", case)
        back = Element.from_tag(nr.serialize())
        got = (back.table_name, tuple(back.start), tuple(back.end), tuple(back.crange), back.usage)
        ctx.check(type(back) is NamedRange and back.name == "nr_1" and got == want, ("C19", "NamedRange", "roundtrip"),
                  f"table name {tname!r} area {crange!r}: written {nr.get_attribute_string('table:cell-range-address')!r}, "
                  f"read back {got!r}, expected {want!r}", case)


def check_rename(ctx, names, target, newname):
    """A spreadsheet with tables `names`, one named range per table; rename one."""
    from odfdo import Document, Table

    case = {"kind": "rename", "names": names, "target": target, "new": newname}
    with ctx.guard(("C19", "rename", "exception"), case):
        doc = Document("spreadsheet")
        body = doc.body
        body.clear()
        ok = []
        for i, n in enumerate(names):
            try:
                t = Table(n, width=2, height=2)
            except (ValueError, TypeError):
                continue
            if t.name in [o for o, _ in ok]:
                continue
            body.append(t)
            t.set_named_range(f"range_{i}", "A1:B2")
            ok.append((t.name, f"range_{i}"))
        if not ok:
            return
        # usage attributes (one value, a list of values as ODF allows, "none", or absent) travel with the range
        usages = ["print-range", "print-range filter", None, "filter repeat-row", "none"]
        for i, nr in enumerate(body.get_named_ranges()):
            u = usages[(i + len(newname)) % len(usages)]
            if u is not None:
                nr.set_attribute("table:range-usable-as", u)
        if len(newname) % 2:
            # as a document read from a file
            import io

            buf = io.BytesIO()
            doc.save(buf)
            buf.seek(0)
            doc = Document(buf)
            body = doc.body
        usage_before = {nr.name: nr.get_attribute_string("table:range-usable-as") for nr in body.get_named_ranges()}
        tgt_name, tgt_range = ok[target % len(ok)]
        table = body.get_table(name=tgt_name) if '"' not in tgt_name else [t for t in body.get_tables() if t.name == tgt_name][0]
        try:
            table.name = newname
        except (ValueError, TypeError):
            return
        new = table.name
        if any(new == o for o, r in ok if r != tgt_range):
            return
        ctx.nontrivial(("rn", names, target, newname))
        ctx.count("rename-cases")
        # re-read through a fresh parse of the body
        got = {}
        for el in odfread.parse_fragment(body.serialize()).iter(odfread.q("table:named-range")):
            got[el.get(odfread.q("table:name"))] = el.get(odfread.q("table:cell-range-address"))
        for nr in body.get_named_ranges():
            exp_table = new if nr.name == tgt_range else dict((r, o) for o, r in ok)[nr.name]
            ub = usage_before.get(nr.name)
            ua = nr.get_attribute_string("table:range-usable-as")
            ctx.check(ua == ub, ("C19", "rename", "named-range-usage"),
                      f"range {nr.name}: table:range-usable-as was {ub!r}; after renaming table {tgt_name!r} it is {ua!r}", case)
            ctx.check(nr.table_name == exp_table, ("C19", "rename", "named-range-table"),
                      f"after renaming {tgt_name!r} -> {new!r}: range {nr.name} points to {nr.table_name!r} "
                      f"(address {got.get(nr.name)!r}), expected {exp_table!r}", case)


def run_case(case, ctx):
    k = case["kind"]
    if k == "getters":
        check_getters(ctx, case["spec"], case["x"], case["y"], case["dx"], case["dy"])
    elif k == "mutators":
        check_mutators(ctx, case["spec"], case["x"], case["y"], case["dx"], case["dy"], case["which"])
    elif k == "named-range":
        check_named_range(ctx, case["table"], case["x"], case["y"], case["dx"], case["dy"], case["form"], case["usage"])
    elif k == "rename":
        check_rename(ctx, case["names"], case["target"], case["new"])
    elif k == "alpha":
        check_alpha(ctx, case["n"])
    elif k == "letters":
        check_letters(ctx, case["s"])


def replay(case, ctx):
    try:
        run_case(case, ctx)
    except Abandon:
        pass


def check_alpha(ctx, n):
    from odfdo.utils.coordinates import alpha_to_digit, digit_to_alpha

    case = {"kind": "alpha", "n": n}
    with ctx.guard(("C19", "digit_to_alpha", "exception"), case):
        s = digit_to_alpha(n)
        ctx.check(s == base26(n), ("C19", "digit_to_alpha", "value"), f"digit_to_alpha({n}) = {s!r}, base-26 says {base26(n)!r}", case)
        ctx.check(alpha_to_digit(s) == n, ("C19", "alpha-digit", "roundtrip"), f"{n} -> {s!r} -> {alpha_to_digit(s)}", case)


def check_letters(ctx, s):
    from odfdo.utils.coordinates import alpha_to_digit, convert_coordinates, digit_to_alpha

    case = {"kind": "letters", "s": s}
    with ctx.guard(("C19", "alpha_to_digit", "exception"), case):
        n = alpha_to_digit(s)
        ctx.check(n == unbase26(s), ("C19", "alpha_to_digit", "value"), f"alpha_to_digit({s!r}) = {n}, base-26 says {unbase26(s)}", case)
        ctx.check(digit_to_alpha(n) == s.upper(), ("C19", "digit-alpha", "roundtrip"), f"{s!r} -> {n} -> {digit_to_alpha(n)!r}", case)
        ctx.check(convert_coordinates(f"{s}7") == (n, 6), ("C19", "convert_coordinates", "value"),
                  f"convert_coordinates({s + '7'!r}) = {convert_coordinates(s + '7')!r}", case)


def run_shard(ctx):
    # ---- E ------------------------------------------------------------------
    def enum(_r):
        top = 500000 if ctx.thorough else 20000
        for n in range(ctx.shard, top, ctx.nshards):
            try:
                check_alpha(ctx, n)
            except Abandon:
                pass
        ctx.ev(len(range(ctx.shard, top, ctx.nshards)))
        ctx.count("alpha-enumerated", len(range(ctx.shard, top, ctx.nshards)))
        maxlen = 4 if ctx.thorough else 3
        i = 0
        for L in range(1, maxlen + 1):
            for tup in itertools.product(string.ascii_uppercase, repeat=L):
                i += 1
                if i % ctx.nshards != ctx.shard:
                    continue
                s = "".join(tup)
                if i % 3 == 0:
                    s = s.lower()
                try:
                    check_letters(ctx, s)
                except Abandon:
                    pass
                ctx.ev()
                if L > 1:
                    ctx.nt.add((2 << 40) | i)
        ctx.count("letters-enumerated", i // ctx.nshards)
        ctx.extra["exhaustive"] = True
        ctx.extra["exhaustive_bound"] = f"n < {top}; letter strings up to length {maxlen}"

    ctx.engine.add("enumeration")
    ctx.rounds_loop(enum)

    big = st.one_of(st.integers(0, 10**9), st.sampled_from([16383, 16384, 16385, 1023, 1024, 18277, 18278, 475253, 475254]))

    def mk0():
        @given(big)
        def t(n):
            ctx.ev()
            try:
                check_alpha(ctx, n)
                ctx.nontrivial(("a", n))
            except Abandon:
                pass
        return t

    ctx.run_given(mk0, ctx.budget(3000, 100000), salt=1)

    # ---- H: getters / mutators -------------------------------------------------
    spec = st_initial(())
    coord = st.integers(0, 7)

    def mk1():
        @given(spec, coord, coord, st.integers(0, 4), st.integers(0, 4))
        def t(sp, x, y, dx, dy):
            ctx.ev()
            try:
                check_getters(ctx, sp, x, y, dx, dy)
                ctx.maybe_sample({"kind": "getters", "spec": sp, "x": x, "y": y, "dx": dx, "dy": dy}, 211)
            except Abandon:
                pass
        return t

    ctx.run_given(mk1, ctx.budget(2600, 120000), salt=2)

    def mk2():
        @given(spec, coord, coord, st.integers(0, 3), st.integers(0, 3),
               st.sampled_from(["set_value", "set_cell", "insert_cell", "delete_cell", "set_values", "set_values-area",
                                "set_cells", "set_span", "transpose"]))
        def t(sp, x, y, dx, dy, which):
            ctx.ev()
            try:
                check_mutators(ctx, sp, x, y, dx, dy, which)
            except Abandon:
                pass
        return t

    ctx.run_given(mk2, ctx.budget(1500, 60000), salt=3)

    # ---- H: named ranges ----------------------------------------------------------
    tnames = st.one_of(st.text(alphabet=st.sampled_from(TN_ALPHA), min_size=1, max_size=8),
                       st.sampled_from(["Sheet1", "a.b", "a b", "it's", "a.b c", "x.y.z", "US$", "a'.b", "tab 1.2", "é.è"]))

    def mk3():
        @given(tnames, st.integers(0, 30), st.integers(0, 40), st.integers(0, 3), st.integers(0, 3),
               st.sampled_from(["str", "tuple", "cell-str", "cell-tuple"]),
               st.sampled_from([None, "print-range", "filter", "repeat-column", "repeat-row"]))
        def t(tn, x, y, dx, dy, form, usage):
            ctx.ev()
            try:
                check_named_range(ctx, tn, x, y, dx, dy, form, usage)
                ctx.maybe_sample({"kind": "named-range", "table": tn, "area": [x, y, x + dx, y + dy], "form": form}, 301)
            except Abandon:
                pass
        return t

    ctx.run_given(mk3, ctx.budget(5000, 150000), salt=4)

    def mk4():
        @given(st.lists(tnames, min_size=1, max_size=4), st.integers(0, 3), tnames)
        def t(names, target, new):
            ctx.ev()
            try:
                check_rename(ctx, names, target, new)
            except Abandon:
                pass
        return t

    ctx.run_given(mk4, ctx.budget(1200, 40000), salt=5)
