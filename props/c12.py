"""C12 - every element class round-trips through XML and comes back as the same class."""
from __future__ import annotations

import inspect
import io
from datetime import datetime, timedelta

from hypothesis import given, strategies as st

from lib import odfread
from lib.harness import Abandon

ID = "C12"
RULE = (
    "E: the live class registry (every registered tag/class, enumerated at run time) - each class is built with type-directed "
    "constructor arguments; H: random subsets/values of the arguments (str -> identifier/text alphabets incl. XML-special and "
    "non-ASCII, bool, int, ODF lengths, colours, datetime, timedelta). Oracle: (1) each supplied argument that has an equally "
    "named property (or an entry in the explicit argument->observable table) is exposed by it; (2) serialize() is well-formed "
    "and uses the registered prefix:tag; (3) Element.from_tag(e.serialize()) is an instance of the same class, C14N-equal, with "
    "equal property values; (4) dispatch: one element of every registered tag nested at depths 1-4 of a document is returned as "
    "its registered class through from_tag, children, get_elements, get_element, xpath, parent, root descent, clone + descent "
    "and XmlPart load of the serialised document. Non-trivial = instance built with >= 2 non-default arguments; registry "
    "enumeration exhaustive; distinct by (class, arguments)."
    ' Also: re-parse of the same infoset written with non-canonical namespace prefixes; wrappers whose tag was rewritten (t'
    'ag setter, set_reference_mark_end) dispatch on the current tag through clone/children/get_element/from_tag; comments a'
    'nd PIs between elements hide nothing; List(list_content=) in every iterable shape incl. one-shot iterators; a Style fa'
    'mily changed on an inspected wrapper agrees with the re-parse of its XML; several annotations in one document read the'
    'ir own creator/date.'
)
ASSUMPTIONS = [
    "an argument is compared with the equally named property only where that property is attribute-backed or listed in OBSERVE; "
    "arguments documented as ignored when falsy are generated truthy",
    "pseudo classes without ODF tag semantics (text:p-odfdo-notodf) are round-tripped but not argument-checked",
]

# arguments whose equally named attribute has other semantics, or that are consumed (not stored) by the constructor
SKIP_ARGS = {
    ("Annotation", "parent"), ("Paragraph", "text_or_element"), ("Paragraph", "formatted"),
    ("Span", "formatted"), ("Header", "formatted"),
    ("UserDefined", "from_document"), ("Style", "area"), ("AnnotationEnd", "annotation"), ("Cell", "text"), ("Cell", "cell_type"),
    ("Cell", "currency"), ("Row", "width"), ("RowGroup", "height"), ("RowGroup", "width"), ("Table", "width"), ("Table", "height"),
    ("IndexTitle", "title_text"), ("IndexTitle", "title_text_style"), ("TOC", "title"), ("TOC", "title_style"), ("TOC", "entry_style"),
    ("VarSet", "text"), ("VarGet", "text"), ("UserFieldGet", "text"), ("UserFieldInput", "text"), ("UserDefined", "text"),
    ("VarDate", "text"), ("VarTime", "text"), ("VarSet", "value_type"), ("VarGet", "value_type"), ("UserFieldGet", "value_type"),
    ("UserFieldInput", "value_type"), ("UserDefined", "value_type"), ("UserFieldDecl", "value_type"), ("VarDecl", "value_type"),
    ("VarSet", "display"), ("DrawGroup", "position"), ("ConnectorShape", "connected_shapes"), ("ConnectorShape", "glue_points"),
}
# argument -> how to observe it when no equally named property exists
OBSERVE = {
    ("List", "list_content"): lambda e: [i.text_content for i in e.get_items()],
    ("ListItem", "text_or_element"): lambda e: e.text_content,
    ("Annotation", "text_or_element"): lambda e: e.note_body,
    ("Frame", "position"): lambda e: e.position,
    ("Frame", "size"): lambda e: e.size,
    ("Link", "text"): lambda e: e.text,
    ("Note", "body"): lambda e: e.note_body,
    ("Header", "text"): lambda e: e.inner_text,
    ("Span", "text"): lambda e: e.inner_text,
    ("Cell", "value"): lambda e: e.value,
    ("VarSet", "value"): lambda e: e.get_value(),
    ("UserFieldDecl", "value"): lambda e: e.get_value(),
    ("UserDefined", "value"): lambda e: e.get_value(),
    ("TOC", "outline_level"): lambda e: e.outline_level,
    ("Table", "protection_key"): lambda e: e.protection_key,
    ("VarTime", "time_adjust"): lambda e: e.get_attribute_string("text:time-adjust"),
    ("VarDate", "date_adjust"): lambda e: e.get_attribute_string("text:date-adjust"),
}

TEXTS = ["abc", "N_1", "a b", "é<&>", "x'y", "Standard", "id9"]


def arg_strategy(cls_name, pname, ann, default):
    a = str(ann)
    p = pname
    if cls_name == "List" and p == "list_content":
        # documented as str | Element | Iterable[str | Element]: every iterable shape, the one-shot ones included
        return st.sampled_from(["one item", "$element:paragraph", "$list:a|b c|d", "$tuple:a|b", "$iter:a|b|c", "$gen:x|y", "$map:p|q", "$list:",
                                "$elements:e1|e2"])
    if p == "text_or_element" or (cls_name == "Note" and p == "body"):
        # documented as "str or element": both shapes
        return st.sampled_from(["plain body", "$element:paragraph"])
    if p in ("cell_type", "value_type", "currency", "formula"):
        return None  # typed-value plumbing: only valid combinations make sense (exercised by C06)
    if p == "xml_id":
        return st.sampled_from(["id1", "x_2"])
    if cls_name == "BackgroundImage" and p == "position":
        return st.sampled_from(["center", "top left"])
    if cls_name == "Style" and p in ("area", "color", "background_color", "italic", "bold", "border", "border_top", "border_right",
                                     "border_bottom", "border_left", "padding", "padding_top", "padding_bottom", "padding_left",
                                     "padding_right", "shadow", "height", "use_optimal_height", "width", "break_before", "break_after",
                                     "min_height", "font_name", "font_family", "data_style", "font_family_generic", "font_pitch"):
        return None  # property sugar stored in sub-elements: covered by the style tests, not attribute-backed
    if p in ("family",):
        return st.sampled_from(["paragraph", "text", "table-cell", "graphic"])
    if p in ("size", "position", "p1", "p2"):
        return st.tuples(st.sampled_from(["1cm", "2.5cm", "10mm"]), st.sampled_from(["1cm", "3cm", "0.5in"]))
    if p in ("color", "background_color", "smil_fadeColor"):
        return st.sampled_from(["#ff0000", "#00FF00", "#123456"])
    if p in ("url", "href"):
        return st.sampled_from(["http://example.org/a", "Pictures/x.png", "#anchor"])
    if p in ("delay", "time_adjust", "date_adjust"):
        return st.sampled_from([timedelta(hours=2), timedelta(seconds=90), timedelta(days=1)])
    if p in ("date", "time") and "datetime" in a:
        return st.sampled_from([datetime(2024, 1, 31, 10, 30, 0), datetime(1999, 12, 31, 23, 59, 59)])
    if p == "anchor_type":
        return st.sampled_from(["paragraph", "as-char", "page", "char"])
    if p == "note_class":
        return st.sampled_from(["footnote", "endnote"])
    if p == "usage":
        return st.sampled_from(["print-range", "filter"])
    if p == "crange":
        return st.sampled_from(["A1:B2", (0, 0, 1, 1), "C3"])
    if p == "table_name":
        return st.sampled_from(["Sheet1", "a b"])
    if cls_name == "NamedRange" and p == "name":
        return st.sampled_from(["range_1", "myrange"])
    if cls_name == "Table" and p == "name":
        return st.sampled_from(["T1", "a b", "é"])
    if p in ("width", "height") and cls_name in ("Table", "Row", "RowGroup"):
        return st.integers(1, 3)
    if p == "print_ranges":
        return st.sampled_from([["A1:B2"], ["E6:K12", "P6:R12"]])
    if p == "value":
        return st.sampled_from([1, 2.5, "txt", True])
    if p == "level":
        return st.integers(1, 5)
    if p in ("repeated", "number", "outline_level", "z_index", "anchor_page", "page_adjust", "start_value", "tab_ref"):
        return st.integers(2, 9)
    if p == "presentation_class":
        return st.sampled_from(["title", "outline", "graphic"])
    if p == "select_page":
        return st.sampled_from(["current", "previous", "next"])
    if p == "display":
        return st.sampled_from(["full", "name", "number"])
    if p == "ref_format":
        return st.sampled_from(["page", "chapter", "text"])
    if p in ("xlink_type", "show", "actuate"):
        return st.sampled_from(["simple", "embed", "onLoad"])
    if "bool" in a and "str" not in a:
        return st.booleans()
    if a.startswith("int") or a == "int | None":
        return st.integers(1, 9)
    if "str" in a:
        return st.sampled_from(TEXTS)
    return None


def same(supplied, observed):
    if observed is None:
        return False
    if isinstance(supplied, str) and supplied.startswith(("$list:", "$tuple:", "$iter:", "$gen:", "$map:", "$elements:")):
        body_ = supplied.partition(":")[2]
        return list(observed) == ([x for x in body_.split("|") if x] if body_ else [])
    if supplied == "one item":
        return observed == "one item" or list(observed) == ["one item"]
    if supplied == "$element:paragraph":
        return "elem body" in str(observed)
    if hasattr(supplied, "serialize"):  # an element given as body: its text must be there
        return "elem body" in str(observed)
    if isinstance(supplied, bool):
        return observed is supplied or observed == ("true" if supplied else "false")
    if isinstance(supplied, (list, tuple)):
        try:
            return [str(x) for x in supplied] == [str(x) for x in observed]
        except TypeError:
            return " ".join(str(x) for x in supplied) == str(observed)
    if isinstance(supplied, datetime):
        from odfdo.datatype import DateTime

        return observed == supplied or str(observed) in (DateTime.encode(supplied), supplied.isoformat())
    if isinstance(supplied, timedelta):
        from odfdo.datatype import Duration

        return observed == supplied or str(observed) == Duration.encode(supplied)
    if isinstance(supplied, float):
        return float(observed) == supplied
    return observed == supplied or str(observed) == str(supplied)


def registry():
    import odfdo  # noqa: F401  (imports register every class)
    from odfdo.element import _class_registry

    return dict(_class_registry)


def qname_of(tag):
    from odfdo.element import _get_prefixed_name

    return _get_prefixed_name(str(tag))


def class_params(cls):
    sig = inspect.signature(cls.__init__)
    return [p for p in list(sig.parameters.values())[1:] if p.kind in (p.POSITIONAL_OR_KEYWORD, p.KEYWORD_ONLY)]


def prop_names(cls):
    names = {p.name for p in getattr(cls, "_properties", ())}
    for n, v in inspect.getmembers(cls, lambda o: isinstance(o, property)):
        names.add(n)
    return names


def build(cls, kwargs):
    name = cls.__name__
    kw = dict(kwargs)
    for k_, v_ in list(kw.items()):
        if v_ == "$element:paragraph":
            from odfdo import Paragraph

            kw[k_] = Paragraph("elem body")
        elif isinstance(v_, str) and v_.startswith(("$list:", "$tuple:", "$iter:", "$gen:", "$map:", "$elements:")):
            from odfdo import Paragraph

            kind_, _, body_ = v_.partition(":")
            items_ = [x for x in body_.split("|") if x] if body_ else []
            kw[k_] = {"$list": lambda: list(items_), "$tuple": lambda: tuple(items_), "$iter": lambda: iter(items_),
                      "$gen": lambda: (x for x in items_), "$map": lambda: map(str, items_),
                      "$elements": lambda: [Paragraph(x) for x in items_]}[kind_]()
    if name == "Style" and "family" not in kw:
        kw["family"] = "paragraph"
    if name == "Table" and "name" not in kw:
        kw["name"] = "T0"
    if name == "NamedRange":
        kw.setdefault("name", "nr_0")
        kw.setdefault("crange", "A1:B2")
        kw.setdefault("table_name", "T")
    if name == "MetaAutoReload" and "delay" not in kw:
        kw["delay"] = timedelta(seconds=5)
    if name == "AnnotationEnd" and "name" not in kw:
        kw["name"] = "ann1"
    if name == "Table" and kw.get("protection_key") and not kw.get("protected"):
        kw["protected"] = True
    return cls(**kw), kw


def check_instance(ctx, tag, cls, kwargs, case):
    from odfdo import Element

    cname = cls.__name__
    qn = qname_of(tag)
    with ctx.guard(("C12", cname, "constructor-exception"), case):
        try:
            e, kw = build(cls, kwargs)
        except (ValueError, TypeError) as ex:
            # the constructor may reject a combination (documented validation): not a round-trip failure
            ctx.count("ctor-rejected:" + cname)
            return None
    props = prop_names(cls)
    observed = {}
    for p, v in kw.items():
        if (cname, p) in SKIP_ARGS or v is None:
            continue
        if isinstance(kwargs.get(p), str) and kwargs[p].startswith("$") and kwargs[p] != "$element:paragraph":
            v = kwargs[p]  # the description of the iterable, not the (consumed) iterable itself
        if v is False and not (cname == "Table" and p == "printable"):
            continue  # arguments documented as ignored when falsy
        if cname == "Table" and p == "printable" and v is True:
            continue  # default: no attribute written
        if cname == "Style" and kw.get("family") == "font-face" and p == "name":
            continue  # a font-face is named after its font
        if cname == "Style":
            fam = kw.get("family")
            pdef = [d for d in cls._properties if d.name == p]
            if pdef and pdef[0].family and pdef[0].family != fam:
                continue  # attribute defined for another family only
        if (cname, p) in OBSERVE:
            getter = OBSERVE[(cname, p)]
        elif p in props:
            getter = (lambda pp: (lambda el: getattr(el, pp)))(p)
        else:
            ctx.count("unobservable-arg")
            continue
        with ctx.guard(("C12", cname, "property-exception", p), case):
            got = getter(e)
            observed[p] = (getter, v)
            ctx.check(same(v, got), ("C12", cname, "argument-not-exposed", p),
                      f"{cname}({p}={v!r}) exposes {p} = {got!r}\n{e.serialize()[:300]}", case)
    with ctx.guard(("C12", cname, "roundtrip-exception"), case):
        xml = e.serialize()
        try:
            root = odfread.parse_fragment(xml)
        except Exception as ex:
            ctx.fail(("C12", cname, "not-well-formed"), f"{xml[:200]}: {ex}", case)
            return None
        if cname == "Style":
            from odfdo.utils import FAMILY_MAPPING

            qn = FAMILY_MAPPING.get(kw.get("family"), qn)
        ctx.check(xml.startswith("<" + qn), ("C12", cname, "prefix"), f"serialisation {xml[:60]!r} does not start with <{qn}", case)
        if type(e) is cls and e.tag == qn:
            back = Element.from_tag(xml)
            ctx.check(type(back) is type(e), ("C12", cname, "reparse-class"),
                      f"{xml[:120]} re-parsed as {type(back).__name__}, built as {type(e).__name__}", case)
            ctx.check(odfread.c14n(odfread.parse_fragment(back.serialize())) == odfread.c14n(root), ("C12", cname, "reparse-c14n"),
                      f"{xml[:200]} -> {back.serialize()[:200]}", case)
            for p, (getter, v) in observed.items():
                with ctx.guard(("C12", cname, "property-exception-after-reparse", p), case):
                    ctx.check(same(v, getter(back)), ("C12", cname, "argument-lost-on-reparse", p),
                              f"{cname}({p}={v!r}): after re-parse {p} = {getter(back)!r}", case)
            # the serialisation that declares its own namespaces, parsed back and then given an attribute of a namespace it did
            # not use: still serialises to well-formed XML with that attribute in its namespace
            with ctx.guard(("C12", cname, "with_ns-exception"), case):
                xml_ns = e.serialize(with_ns=True)
                back_ns = Element.from_tag(xml_ns)
                ctx.check(type(back_ns) is type(e), ("C12", cname, "reparse-class/with_ns"), f"{xml_ns[:120]} re-parsed as {type(back_ns).__name__}", case)
                foreign = "presentation:class" if not qn.startswith("presentation:") else "draw:name"
                if foreign not in xml_ns:
                    back_ns.set_attribute(foreign, "probe")
                    out = back_ns.serialize()
                    try:
                        r2 = odfread.parse_fragment(out)
                        ok_attr = r2.get(odfread.q(foreign)) == "probe"
                    except Exception as ex:
                        ok_attr = False
                        out = f"{out[:160]} ({ex})"
                    ctx.check(ok_attr, ("C12", cname, "foreign-attribute-after-with_ns-reparse"),
                              f"from_tag(serialize(with_ns=True)) then set_attribute({foreign!r}): serialises to {out[:200]!r}", case)
            # the same infoset written with other namespace prefixes (valid XML; prefixes are not part of the infoset)
            with ctx.guard(("C12", cname, "alias-prefix-exception"), case):
                xml2 = alias_prefixes(root)
                back2 = Element.from_tag(xml2)
                ctx.check(type(back2) is type(e), ("C12", cname, "reparse-class/alias-prefix"),
                          f"{xml2[:160]} parsed as {type(back2).__name__}, built as {type(e).__name__}", case)
                ctx.check(back2.tag == e.tag, ("C12", cname, "tag/alias-prefix"), f"{xml2[:160]}: tag reads {back2.tag!r}, expected {e.tag!r}", case)
                for p, (getter, v) in observed.items():
                    ctx.check(same(v, getter(back2)), ("C12", cname, "argument-lost-on-reparse/alias-prefix", p),
                              f"{cname}({p}={v!r}): parsed from {xml2[:200]} {p} = {getter(back2)!r}", case)
                kids = [k for k in back2.children]
                ctx.check([type(k) for k in kids] == [type(k) for k in back.children], ("C12", cname, "children-class/alias-prefix"),
                          f"children classes {[type(k).__name__ for k in kids]} vs {[type(k).__name__ for k in back.children]}", case)
    check_setters(ctx, cls, e, kw, kwargs, case)
    return e


NO_SETTER_CHECK = {("Style", "family"), ("Table", "name"), ("NamedRange", "name"), ("NamedRange", "table_name"), ("NamedRange", "crange")}


def check_setters(ctx, cls, e, kw, kwargs, case):
    """an instance changed through a setter still agrees with the re-parse of its own XML (only the Style family, on which
    other properties depend, is exercised: setters in general take the raw attribute strings and are outside the property)"""
    from odfdo import Element

    cname = cls.__name__
    if cname == "Style" and e.tag == "style:style":
        # the family itself: read, change, and the family-dependent properties follow the new family
        with ctx.guard(("C12", cname, "family-setter-exception"), case):
            old = e.family
            new = "paragraph" if old != "paragraph" else "text"
            e.family = new
            ctx.check(e.family == new and Element.from_tag(e.serialize()).family == new, ("C12", cname, "setter-not-read-back", "family"),
                      f"family {old!r} -> {new!r}: reads {e.family!r}, re-parsed {Element.from_tag(e.serialize()).family!r}", case)
            e.master_page = "MP1"
            twin = Element.from_tag(e.serialize())
            want = "MP1" if new == "paragraph" else None
            ctx.check(e.master_page == want and twin.master_page == want, ("C12", cname, "family-dependent-property", "master_page"),
                      f"family changed {old!r} -> {new!r} after being read, then master_page = 'MP1': wrapper reads {e.master_page!r}, "
                      f"a fresh wrapper of the same XML reads {twin.master_page!r}, expected {want!r}", case)


def alias_prefixes(root):
    """serialise the lxml element with every namespace bound to a non-canonical prefix"""
    from lxml import etree as _et

    alias = {"z" + p: u for p, u in odfread.ALL_NS.items()}

    def copy(el):
        if not isinstance(el.tag, str):
            return None
        new = _et.Element(el.tag, nsmap=alias)
        for k, v in el.attrib.items():
            new.set(k, v)
        new.text = el.text
        for ch in el:
            c2 = copy(ch)
            if c2 is not None:
                c2.tail = ch.tail
                new.append(c2)
        return new

    new = copy(root)
    _et.cleanup_namespaces(new)
    return _et.tostring(new, encoding="unicode")


def run_case(case, ctx):
    reg = registry()
    by_name = {}
    for tag, cls in reg.items():
        by_name.setdefault(cls.__name__, (tag, cls))
    if case["cls"] not in by_name:
        return
    tag, cls = by_name[case["cls"]]
    if case.get("tag"):
        for t, c in reg.items():
            if qname_of(t) == case["tag"]:
                tag, cls = t, c
    kwargs = dict(case["kwargs"])
    if len([v for v in kwargs.values() if v is not None]) >= 2:
        ctx.nontrivial((case["cls"], sorted((k, repr(v)) for k, v in kwargs.items())))
    check_instance(ctx, tag, cls, kwargs, case)


def replay(case, ctx):
    try:
        if case.get("kind") == "dispatch":
            check_dispatch(ctx)
        else:
            run_case(case, ctx)
    except Abandon:
        pass


# ------------------------------------------------------------------ dispatch
def odfread_q(name):
    from lib import odfread

    return odfread.q(name)


def check_dispatch(ctx):
    from odfdo import Document, Element
    from odfdo.content import Content

    reg = registry()
    case = {"kind": "dispatch"}
    doc = Document("text")
    body = doc.body
    body.clear()
    items = sorted(reg.items(), key=lambda kv: str(kv[0]))
    # one element of every registered tag at depths 1-4 (generic wrappers: sections)
    holders = []
    for i, (tag, cls) in enumerate(items):
        qn = qname_of(tag)
        depth = i % 4
        holder = body
        for d in range(depth):
            sec = Element.from_tag("text:section")
            sec.set_attribute("text:name", f"s{i}_{d}")
            Element.append(holder, sec)
            holder = sec
        el = Element.from_tag(qn)
        el.set_attribute("text:id", f"d{i}")
        Element.append(holder, el)
        holders.append((qn, cls, f"d{i}"))
    ctx.ev(len(items))

    def expect(el, cls, path, qn):
        ctx.check(type(el) is cls, ("C12", "dispatch", path), f"<{qn}> reached through {path} is {type(el).__name__}, registered class {cls.__name__}", case)

    with ctx.guard(("C12", "dispatch", "exception"), case):
        xml = doc.content.serialize()
        doc2 = Document("text")
        doc2.set_part("content.xml", xml)
        for d, label in ((doc, "live"), (doc2, "xmlpart-load"), (doc.clone, "document-clone")):
            b = d.body
            for qn, cls, ident in holders:
                q = f'descendant::{qn}[@text:id="{ident}"]'
                got = b.get_elements(q)
                ctx.check(len(got) == 1, ("C12", "dispatch", "lookup"), f"{q} found {len(got)} ({label})", case)
                if not got:
                    continue
                el = got[0]
                expect(el, cls, f"get_elements/{label}", qn)
                expect(b.get_element(q), cls, f"get_element/{label}", qn)
                expect(b.xpath(q)[0], cls, f"xpath/{label}", qn)
                par = el.parent
                kids = [k for k in par.children if k.get_attribute_string("text:id") == ident]
                expect(kids[0], cls, f"children/{label}", qn)
                expect(Element.from_tag(el.serialize()), cls, f"from_tag(serialize)/{label}", qn)
                expect(el.clone, cls, f"clone/{label}", qn)
                cl = par.clone
                kids2 = [k for k in cl.children if k.get_attribute_string("text:id") == ident]
                expect(kids2[0], cls, f"clone-then-children/{label}", qn)
                expect(el.root.get_element(q), cls, f"root-descent/{label}", qn)
                if el.children:
                    pass
        # receivers with their own get_elements (Table, Row): multi-tag queries must classify every hit
        from odfdo import Cell, Row, Table

        table = Table("D")
        row = Row()
        cell = Cell()
        for qn, cls, ident in holders:
            el = Element.from_tag(qn)
            el.set_attribute("text:id", "c" + ident)
            Element.append(cell, el)
        Element.append(row, cell)
        Element.append(table, row)
        tdoc = Document("spreadsheet")
        tdoc.body.clear()
        tdoc.body.append(table)
        want = {"c" + ident: (qn, cls) for qn, cls, ident in holders}
        for recv_name, recv in (("Table", tdoc.body.get_table(0)), ("Row", tdoc.body.get_table(0).get_elements("table:table-row")[0]),
                                ("Cell", tdoc.body.get_element("descendant::table:table-cell")), ("Body", tdoc.body)):
            for query in ("descendant::*", "descendant::*[@text:id]"):
                hits = recv.get_elements(query)
                seen = 0
                for h in hits:
                    ident = h.get_attribute_string("text:id")
                    if ident in want:
                        seen += 1
                        qn, cls = want[ident]
                        expect(h, cls, f"{recv_name}.get_elements({query})", qn)
                ctx.check(seen == len(want), ("C12", "dispatch", "lookup"), f"{recv_name}.get_elements({query!r}) returned {seen} of {len(want)} elements", case)
            for h in recv.xpath("descendant::*[@text:id]"):
                ident = h.get_attribute_string("text:id")
                if ident in want:
                    expect(h, want[ident][1], f"{recv_name}.xpath", want[ident][0])
        # parent of a child of each class instance
        for qn, cls, ident in holders:
            q = f'descendant::{qn}[@text:id="{ident}"]'
            el = doc.body.get_element(q)
            child = Element.from_tag("text:span")
            Element.append(el, child)
            expect(child.parent, cls, "parent", qn)
    # wrappers whose tag was rewritten (public `tag` setter; the library does it for reference marks, covered cells,
    # default styles, list level styles): every path that produces a *new* wrapper dispatches on the current tag
    with ctx.guard(("C12", "dispatch", "retag-exception"), case):
        n = len(items)
        for i, (tag, cls) in enumerate(items):
            for step in (1, 7, 23, 41):
                tag2, cls2 = items[(i + step) % n]
                qn, qn2 = qname_of(tag), qname_of(tag2)
                el = Element.from_tag(qn)
                holder = Element.from_tag("text:section")
                Element.append(holder, el)
                el.tag = qn2
                ctx.ev()
                path = "retagged"
                expect(el.clone, cls2, f"clone/{path}", qn2)
                expect(holder.children[0], cls2, f"children/{path}", qn2)
                expect(holder.clone.children[0], cls2, f"clone-then-children/{path}", qn2)
                expect(Element.from_tag(el.serialize()), cls2, f"from_tag(serialize)/{path}", qn2)
                expect(holder.get_element(qn2), cls2, f"get_element/{path}", qn2)
        from odfdo import Paragraph
        from odfdo.reference import ReferenceMark, ReferenceMarkStart

        para = Paragraph("some text to mark")
        mark = ReferenceMark("m1")
        para.append(mark)
        para.set_reference_mark_end(mark, position=4)
        expect(mark.clone, ReferenceMarkStart, "clone/set_reference_mark_end", "text:reference-mark-start")
        expect(para.get_element("descendant::text:reference-mark-start"), ReferenceMarkStart, "get_element/set_reference_mark_end", "text:reference-mark-start")
        expect(para.clone.get_element("descendant::text:reference-mark-start"), ReferenceMarkStart, "clone-then-get_element/set_reference_mark_end", "text:reference-mark-start")
    # comments and processing instructions between the elements (valid XML, ignored by consumers) hide nothing
    with ctx.guard(("C12", "dispatch", "comment-exception"), case):
        from lxml import etree as _et

        xml2 = doc.content.serialize()
        root = _et.fromstring(xml2)
        n_el = 0
        for el in list(root.iter()):
            if isinstance(el.tag, str) and el.get(odfread_q("text:id")) and el.getparent() is not None:
                el.addprevious(_et.Comment("verif"))
                el.addnext(_et.ProcessingInstruction("verif-pi", "x"))
                n_el += 1
        doc3 = Document("text")
        doc3.set_part("content.xml", _et.tostring(root.getroottree(), xml_declaration=True, encoding="UTF-8"))
        b = doc3.body
        for qn, cls, ident in holders:
            q = f'descendant::{qn}[@text:id="{ident}"]'
            el = b.get_element(q)
            ctx.check(el is not None, ("C12", "dispatch", "lookup"), f"{q} not found next to comments", case)
            if el is None:
                continue
            expect(el, cls, "get_element/with-comments", qn)
            kids = [k for k in el.parent.children if k.get_attribute_string("text:id") == ident]
            ctx.check(len(kids) == 1, ("C12", "dispatch", "lookup"), f"children of the parent of {qn} lists it {len(kids)} times next to comments", case)
            if kids:
                expect(kids[0], cls, "children/with-comments", qn)
            # every child handed out is a usable element wrapper (comments are not elements)
            tags = [k.tag for k in el.parent.children]
            ctx.check(all(isinstance(t, str) and ":" in t for t in tags), ("C12", "dispatch", "children/with-comments"),
                      f"children of the parent of {qn}: tags {tags!r}", case)
            expect(el.clone, cls, "clone/with-comments", qn)
        ctx.ev(n_el)
    # several annotations in one document: each wrapper reads (and writes) its own creator and date
    with ctx.guard(("C12", "dispatch", "annotation-values-exception"), case):
        from datetime import datetime as _dt

        from odfdo import Paragraph as _P
        from odfdo.note import Annotation as _A

        d4 = Document("text")
        d4.body.clear()
        par = _P("one two three four")
        d4.body.append(par)
        for i, word in enumerate(("one", "two", "three")):
            par.insert_annotation(_A(f"body{i}", creator=f"creator{i}", date=_dt(2024, 1, 10 + i, 8, 0, 0)), after=word)
        d5 = Document("text")
        d5.set_part("content.xml", d4.content.serialize())
        for d_, label in ((d4, "live"), (d5, "parsed")):
            got = [(a.creator, a.note_body, a.date) for a in d_.body.get_annotations()]
            want = [(f"creator{i}", f"body{i}", _dt(2024, 1, 10 + i, 8, 0, 0)) for i in range(3)]
            ctx.check(got == want, ("C12", "dispatch", "annotation-values"), f"annotations of one paragraph ({label}) read {got!r}, built as {want!r}", case)
        second = d5.body.get_annotations()[1]
        second.creator = "changed"
        got = [a.creator for a in d5.body.get_annotations()]
        ctx.check(got == ["creator0", "changed", "creator2"], ("C12", "dispatch", "annotation-values"), f"after setting the creator of the second: {got!r}", case)
    ctx.nontrivial(("dispatch", len(items)))


def run_shard(ctx):
    reg = registry()
    classes = {}
    for tag, cls in sorted(reg.items(), key=lambda kv: str(kv[0])):
        classes.setdefault(cls.__name__, []).append((tag, cls))

    # ---- E: every class with every single argument and with all arguments --------------------
    def enum(_r):
        k = 0
        for cname, lst in sorted(classes.items()):
            for tag, cls in lst:
                params = class_params(cls)
                strategies = {p.name: arg_strategy(cname, p.name, p.annotation, p.default) for p in params}
                strategies = {n: s for n, s in strategies.items() if s is not None}
                plans = [{}] + [{n: 0} for n in strategies] + [{n: 1} for n in strategies] + [dict.fromkeys(strategies, 0), dict.fromkeys(strategies, 1)]
                if cname != "Style" and getattr(cls, "_tag", None) != qname_of(tag):
                    continue  # second tag of a class (e.g. covered-table-cell): reached by parsing, see dispatch
                for plan in plans:
                    k += 1
                    if k % ctx.nshards != ctx.shard:
                        continue
                    kwargs = {}
                    for n, which in plan.items():
                        ex = _examples(strategies[n])
                        kwargs[n] = ex[which % len(ex)]
                    if cname == "Style":
                        if qname_of(tag) != "style:style":
                            fam = _family_for_tag(qname_of(tag))
                            if fam is None:
                                continue
                            kwargs["family"] = fam
                        else:
                            kwargs.setdefault("family", "paragraph")
                        if kwargs["family"] == "font-face":
                            kwargs.setdefault("font_name", "Arial")
                    case = {"cls": cname, "kwargs": kwargs, "tag": qname_of(tag)}
                    ctx.ev()
                    ctx.count("class:" + cname)
                    if len(kwargs) >= 2:
                        ctx.nontrivial((cname, sorted((a, repr(b)) for a, b in kwargs.items())))
                    try:
                        check_instance(ctx, tag, cls, kwargs, case)
                    except Abandon:
                        pass
        if ctx.shard == 0:
            try:
                check_dispatch(ctx)
            except Abandon:
                pass
            ctx.sample({"cls": "Frame", "kwargs": {"name": "f1", "size": ["1cm", "2cm"], "anchor_type": "page"}})
        ctx.extra["exhaustive"] = True
        ctx.extra["exhaustive_bound"] = f"{len(reg)} registered tags / {len(classes)} classes; each argument alone (2 values) and all together"
        ctx.extra["registered_tags"] = len(reg)

    ctx.engine.add("enumeration")
    ctx.rounds_loop(enum)

    # ---- H: random argument subsets -----------------------------------------------------------------
    names = sorted(classes)

    @st.composite
    def cases(draw):
        cname = draw(st.sampled_from(names))
        tag, cls = classes[cname][0]
        kwargs = {}
        for p in class_params(cls):
            s = arg_strategy(cname, p.name, p.annotation, p.default)
            if s is not None and draw(st.integers(0, 2)) == 0:
                kwargs[p.name] = draw(s)
        return {"cls": cname, "kwargs": kwargs}

    def mk():
        @given(cases())
        def t(case):
            ctx.ev()
            try:
                run_case(case, ctx)
                ctx.maybe_sample(case, 1501)
            except Abandon:
                pass
        return t

    ctx.run_given(mk, ctx.budget(60000, 500000), salt=1)


def _examples(strategy):
    """two deterministic example values of a small strategy (sampled_from / booleans / integers / tuples)"""
    from hypothesis.strategies import SearchStrategy

    r = repr(strategy)
    if r.startswith("sampled_from("):
        vals = list(strategy.elements)
        return [vals[0], vals[-1]]
    if r.startswith("booleans"):
        return [True, False]
    if r.startswith("integers"):
        return [2, 7] if "min_value=2" in r else [1, 5]
    if r.startswith("tuples"):
        return [("1cm", "1cm"), ("10mm", "0.5in")]
    return [None, None]


def _family_for_tag(qn):
    from odfdo.utils import FAMILY_MAPPING

    for fam, tag in FAMILY_MAPPING.items():
        if tag == qn and fam not in ("background-image",):
            return fam
    return None
