"""C16 - search and replace act on the text exactly as the regular expression says."""
from __future__ import annotations

import re

from hypothesis import given, strategies as st

from lib import odfread, paragen
from lib.harness import Abandon
from props.c09 import linear, xml_of

ID = "C16"
RULE = (
    "H: paragraphs/headings assembled through the API from text (blanks, TAB, LF), nested spans, links, marks and notes; "
    "patterns from a regex family derived from the actual text nodes (literals, classes, repetitions, alternations, anchors; "
    "never empty-matching); replacements: empty, literals, back-reference \\g<0>, strings with blanks/TAB/LF. Oracle = Python "
    "re over the ordered text nodes read by lxml: replace(p) returns the sum of non-overlapping matches per node and changes "
    "nothing; replace(p, new) returns the same count, every node becomes re.sub of itself, element skeleton and attributes "
    "unchanged; search/search_first/search_all/match/text_at agree with re on the element's own text (independent "
    "linearisation) ; formatted=True: the ODF-interpreted text of the paragraph equals the per-node substitution result, i.e. "
    "the blanks of the replacement are encoded as in a fresh paragraph. Non-trivial = a match in a tail node or at a node edge; "
    "for formatted, a replacement with a blank run/TAB/LF on an element with >= 2 text nodes; distinct by (layout, pattern, "
    "replacement, mode)."
    ' Also count/replace on Table, Row, Cell, List and body receivers holding cells filled through Cell(value), cell.value='
    ', cell.string= and Cell(n, text=): the count equals the matches over every text node of the subtree (independent walk)'
    ' and each text node becomes re.sub of itself.'
)
ASSUMPTIONS = [
    "Python re is the reference regex engine (the API documents Python syntax)",
    "search positions are judged on elements without a tail (top-level paragraph/heading), where 'own text' is unambiguous",
    "lib/odfread and props.c09.linear read the serialisation correctly",
]

NEWS = ["", "X", "xy", r"<\g<0>>", " ", "  ", "a  b", " z", "z ", "p\tq", "p\nq", " \t ", "é", "&<"]


def nodes_of_root(root):
    return [n for n in paragen.text_nodes(root) if n]


def run_case(case, ctx):
    mode = case["mode"]
    with ctx.guard(("C16", "build", "exception"), case):
        e = paragen.build_paragraph(case["layout"], case.get("kind", "p"))
    root0 = xml_of(e)
    nodes = nodes_of_root(root0)
    pat = paragen.make_pattern(case["pat"], nodes)
    if pat is None:
        return
    c = re.compile(pat)
    per_node = [list(c.finditer(n)) for n in nodes]
    total = sum(len(m) for m in per_node)
    runs = odfread.text_runs(root0)
    nt = False
    for (owner, where, s), ms in zip(runs, per_node):
        for m in ms:
            if where == "tail" or m.start() == 0 or m.end() == len(s):
                nt = True
    before_xml = e.serialize()
    skel0 = odfread.skeleton(root0)
    sig = ("C16", mode)
    if mode == "count":
        with ctx.guard(sig + ("exception",), case):
            n = e.replace(pat)
        ctx.check(n == total, sig + ("count",), f"replace({pat!r}) = {n}; per-node matches over {nodes!r}: {total}", case)
        ctx.check(e.serialize() == before_xml, sig + ("modified",), "counting changed the element", case)
        if nt:
            ctx.nontrivial(case)
    elif mode == "replace":
        new = NEWS[case["new"] % len(NEWS)]
        with ctx.guard(sig + ("exception",), case):
            n = e.replace(pat, new)
        ctx.check(n == total, sig + ("count",), f"replace({pat!r}, {new!r}) = {n}; matches {total}", case)
        root1 = xml_of(e)
        want = [c.sub(new, x) for x in nodes]
        got = nodes_of_root(root1)
        ctx.check([w for w in want if w] == got, sig + ("nodes",),
                  f"replace({pat!r}, {new!r}) over text nodes {nodes!r}: now {got!r}, re.sub gives {[w for w in want if w]!r}", case)
        ctx.check(odfread.skeleton(root1) == skel0, sig + ("skeleton",), "markup (elements/attributes) changed by replace", case)
        if nt:
            ctx.nontrivial(case)
    elif mode == "formatted":
        new = NEWS[case["new"] % len(NEWS)]
        fmt_tags = {odfread.T_P, odfread.T_H, odfread.q("text:span")}
        for (owner, where, _s), ms in zip(runs, per_node):
            own = owner if where == "text" else owner.getparent()
            if ms and (own is None or own.tag not in fmt_tags):
                # documented: formatting applies to text owned by a Paragraph, Span or Header
                ctx.count("formatted-skipped-foreign-owner")
                return
        expected = _linear_sub(root0, c, new)
        with ctx.guard(sig + ("exception",), case):
            n = e.replace(pat, new, formatted=True)
        ctx.check(n == total, sig + ("count",), f"replace({pat!r}, {new!r}, formatted=True) = {n}; matches {total}", case)
        root1 = xml_of(e)
        got = odfread.ws_text(root1)
        if total:
            ctx.check(got == expected, sig + ("text",),
                      f"replace({pat!r}, {new!r}, formatted=True): an ODF consumer reads {got!r}, expected {expected!r}\n"
                      f" before {before_xml}\n after  {e.serialize()}", case)
            if len(nodes) >= 2 and re.search(r"  |\t|\n|^ | $", new):
                ctx.nontrivial(case)
        else:
            ctx.check(odfread.ws_text(root1) == odfread.ws_text(root0), sig + ("no-match-changed",), "no match but text changed", case)
    else:  # search family, on the element's own text
        if any(el.tag in (odfread.q("text:a"), odfread.T_NOTE) for el in root0.iter()):
            # links and notes are rendered ("[text](url)", citation) by str(): 'own text' is not unambiguous there
            ctx.count("search-skipped-link-or-note")
            return
        own = linear(root0)
        with ctx.guard(sig + ("exception",), case):
            ctx.check(e.inner_text == own, sig + ("inner_text",), f"inner_text {e.inner_text!r}, independent reading {own!r}", case)
            m = re.search(pat, own)
            ctx.check(e.search(pat) == (m.start() if m else None), sig + ("search",),
                      f"search({pat!r}) = {e.search(pat)!r} on {own!r}, re gives {m.start() if m else None}", case)
            ctx.check(e.search_first(pat) == ((m.start(), m.end()) if m else None), sig + ("search_first",),
                      f"search_first({pat!r}) = {e.search_first(pat)!r}", case)
            allm = [(x.start(), x.end()) for x in re.finditer(pat, own)]
            ctx.check(e.search_all(pat) == allm, sig + ("search_all",), f"search_all({pat!r}) = {e.search_all(pat)!r}, re gives {allm!r}", case)
            ctx.check(e.match(pat) == bool(m), sig + ("match",), f"match({pat!r}) = {e.match(pat)!r}", case)
            for a, b in allm[:3]:
                ctx.check(e.text_at(a, b) == own[a:b], sig + ("text_at",), f"text_at({a},{b}) = {e.text_at(a, b)!r}, text[{a}:{b}] = {own[a:b]!r}", case)
            s0 = case["new"] % (len(own) + 2)
            ctx.check(e.text_at(s0) == own[s0:], sig + ("text_at-open",), f"text_at({s0}) = {e.text_at(s0)!r}", case)
            ctx.check(e.serialize() == before_xml, sig + ("modified",), "searching changed the element", case)
        if allm:
            ctx.nontrivial(case)


def _linear_sub(root, c, new):
    """expected reading after substitution: linearisation with every text node replaced by re.sub"""
    out = []

    def emit(t):
        if t:
            out.append(c.sub(new, t))

    def walk(e):
        if e.tag == odfread.T_S:
            k = e.get(odfread.q("text:c"))
            out.append(" " * (int(k) if k else 1))
        elif e.tag == odfread.T_TAB:
            out.append("\t")
        elif e.tag == odfread.T_LB:
            out.append("\n")
        if e.tag in (odfread.T_NOTE, odfread.T_ANNOT):
            # ws_text reads notes too: keep them, unsubstituted text stays comparable
            pass
        emit(e.text)
        for ch in e:
            if isinstance(ch.tag, str):
                walk(ch)
            emit(ch.tail)

    walk(root)
    return "".join(out)


WORDS = ["foo bar", "a foo b", "xfoox", "bar", "foo", "ab ba", "Foo", "o", "12 foo 3", "foo\nfoo bar", "a\nfoo", "bar o\no"]


def all_text_nodes(root):
    """every text node (text and tail) of the subtree in document order, independent of odfdo"""
    out = []

    def walk(el):
        if el.text:
            out.append(el.text)
        for ch in el:
            if isinstance(ch.tag, str):
                walk(ch)
            if ch.tail:
                out.append(ch.tail)

    walk(root)
    return out


def run_container(case, ctx):
    """count / replace on a Table, a Row, a Cell, a List or a body holding them: every text run of the subtree takes part,
    whichever way the text got there (Cell(value): a text:p; cell.value = ...: text directly in the cell)"""
    from odfdo import Cell, Document, List, Paragraph, Row, Table

    with ctx.guard(("C16", "container", "build-exception"), case):
        doc = Document("text")
        body = doc.body
        body.clear()
        body.append(Paragraph(WORDS[case["w"][0] % len(WORDS)]))
        t = Table("T")
        k = 0
        for y in range(2):
            row = Row()
            for x in range(3):
                k += 1
                w = WORDS[case["w"][k % len(case["w"])] % len(WORDS)]
                how = case["how"][k % len(case["how"])]
                if how == 0:
                    cell = Cell(w)
                elif how == 1:
                    cell = Cell()
                    cell.value = w          # typed setter: the displayed text lands directly in the cell
                elif how == 2:
                    cell = Cell()
                    cell.string = w
                else:
                    cell = Cell(k, text=w)  # a number shown as some text
                row.append_cell(cell)
            t.append_row(row)
        body.append(t)
        body.append(List([WORDS[case["w"][-1] % len(WORDS)], "foo item", "first\nfoo second"]))
        recv = {"table": lambda: body.get_table(0), "row": lambda: body.get_table(0).get_row(case["y"] % 2, clone=False),
                "cell": lambda: body.get_table(0).get_row(case["y"] % 2, clone=False).get_cell(case["x"] % 3, clone=False),
                "body": lambda: body, "list": lambda: body.get_list(position=0)}[case["recv"]]()
    root0 = odfread.parse_fragment(recv.serialize())
    nodes = all_text_nodes(root0)
    pat = ["foo", "o+", "[ab]", "fo", "^foo", "o$", "(?i)foo", r"\bfoo\b", "bar|12"][case["pat"] % 9]
    c = re.compile(pat)
    total = sum(len(list(c.finditer(n))) for n in nodes)
    sig = ("C16", "container-" + case["recv"])
    with ctx.guard(sig + ("exception",), case):
        n = recv.replace(pat)
        ctx.check(n == total, sig + ("count",), f"{case['recv']}.replace({pat!r}) = {n}; the text runs {nodes!r} hold {total} matches", case)
        if case["mode"] == "replace":
            new = ["X", "", "<\\g<0>>", "yy"][case["new"] % 4]
            n2 = recv.replace(pat, new)
            ctx.check(n2 == total, sig + ("count",), f"{case['recv']}.replace({pat!r}, {new!r}) = {n2}; matches {total}", case)
            got = all_text_nodes(odfread.parse_fragment(recv.serialize()))
            want = [x for x in (c.sub(new, n_) for n_ in nodes) if x]
            ctx.check(got == want, sig + ("nodes",), f"{case['recv']}.replace({pat!r}, {new!r}): text runs {nodes!r} became {got!r}, re.sub gives {want!r}", case)
    if total and any(h in (1, 2) for h in case["how"]):
        ctx.nontrivial(case)
    ctx.count("container:" + case["recv"])


def replay(case, ctx):
    try:
        if "recv" in case:
            run_container(case, ctx)
        else:
            run_case(case, ctx)
    except Abandon:
        pass


def st_cases(modes):
    return st.fixed_dictionaries({
        "layout": paragen.st_layout(), "kind": st.sampled_from(["p", "p", "h"]), "pat": paragen.st_pattern(),
        "mode": st.sampled_from(modes), "new": st.integers(0, 40)})


def run_shard(ctx):
    def mk():
        @given(st_cases(["count", "replace", "replace", "formatted", "formatted", "search"]))
        def t(case):
            ctx.ev()
            ctx.count("mode:" + case["mode"])
            try:
                run_case(case, ctx)
                ctx.maybe_sample(case, 997)
            except Abandon:
                pass
        return t

    ctx.run_given(mk, ctx.budget(40000, 600000))

    def mkc():
        cases = st.fixed_dictionaries({"recv": st.sampled_from(["table", "row", "cell", "body", "list"]), "w": st.lists(st.integers(0, 11), min_size=3, max_size=7),
                                       "how": st.lists(st.integers(0, 3), min_size=2, max_size=6), "x": st.integers(0, 2), "y": st.integers(0, 1),
                                       "pat": st.integers(0, 10), "mode": st.sampled_from(["count", "replace"]), "new": st.integers(0, 3)})

        @given(cases)
        def t(case):
            ctx.ev()
            try:
                run_container(case, ctx)
                ctx.maybe_sample(case, 997)
            except Abandon:
                pass
        return t

    ctx.run_given(mkc, ctx.budget(6000, 80000), salt=2)
    if ctx.thorough:
        from lib.fuzz import run_campaign

        ctx.rounds_loop(lambda _r: run_campaign(ctx, "props.c16", runs=400_000 // ctx.nshards,
                                                seeds=["ab|a b", "a+|  x"], modules=["odfdo.element", "odfdo.paragraph"], max_len=24))


def fuzz_target(ctx):
    """bytes -> 'pattern|text': literal pattern taken as a regex only if it compiles and never matches ''."""
    from odfdo import Paragraph

    def target(s):
        if "|" not in s or any(ord(ch) < 32 and ch not in "\t\n" for ch in s) or any(0xD800 <= ord(ch) <= 0xDFFF or ord(ch) >= 0xFFFE for ch in s):
            return
        pat, text = s.split("|", 1)
        try:
            c = re.compile(pat)
        except (re.error, RecursionError, OverflowError):
            return
        p = Paragraph(text)
        root0 = xml_of(p)
        nodes = nodes_of_root(root0)
        if not pat or c.search("") or any(m.start() == m.end() for n in nodes for m in c.finditer(n)):
            return
        total = sum(len(list(c.finditer(n))) for n in nodes)
        case = {"fuzz": s}
        n = p.replace(pat)
        ctx.check(n == total, ("C16", "count", "count"), f"replace({pat!r}) = {n}, matches over {nodes!r} = {total}", case)
        n2 = p.replace(pat, "X")
        ctx.check(n2 == total and nodes_of_root(xml_of(p)) == [w for w in (c.sub("X", x) for x in nodes) if w],
                  ("C16", "replace", "nodes"), f"replace({pat!r}, 'X') on {nodes!r} gives {nodes_of_root(xml_of(p))!r}", case)
        if total:
            ctx.nontrivial(("fz", s))

    return target
