"""C11 - saving is neutral: pretty/packaging change layout only; save never edits memory."""
from __future__ import annotations

import io
import itertools
import shutil
from pathlib import Path

from hypothesis import given, strategies as st

from lib import corpus, odfread
from lib.docmachine import canon, scratch_dir, strip_generator
from lib.harness import Abandon, Violation

ID = "C11"
KINDS = ["text", "btext", "s", "tab", "lb", "span", "link", "note", "annot", "bm", "frame", "field"]
CONTAINERS = ["p", "h", "li", "cell", "notebody", "textbox"]
RULE = (
    "E: paragraphs holding every ordered adjacency of inline kinds {text, blank-edged text, text:s, text:tab, text:line-break, "
    "span, link, note, annotation, bookmark, frame-with-image, field} (plus 8 nested kinds - span/link ending with a tail-less inline element - up to length 2) of length <= 3 inside text:p, and (length <= 2, thorough 3) inside text:h, list "
    "item, table cell, note body and text box, all placed in one text document per batch; S/H: every corpus document and the 4 "
    "templates with a short generated edit history. Configurations: pretty in {False, True} x packaging in {zip, folder, xml} and "
    "save sequences (plain.plain, pretty.plain, pretty.pretty, folder.zip). Oracle relative to the plain zip save, per XML part "
    "read with lxml: list of paragraph/heading projections (ODF white-space aware, own content only), element skeleton (tags in "
    "document order), multiset of (element, attribute, value), text of non-paragraph leaf elements (exact, or modulo surrounding "
    "white space for non-string leaves) identical; in-memory serialisation of every part identical before and after each save "
    "(meta:generator excepted); repeated / mixed saves give C14N-identical plain output. Non-trivial = a paragraph with an inline "
    "element lacking a tail directly followed by another element or the paragraph end; enumeration part exhaustive."
    ' Also documents with comments/processing instructions in their parts; frames sharing one picture that exists in the pa'
    'ckage (flat XML must keep one draw:image per frame).'
)
ASSUMPTIONS = [
    "lib/odfread.plain_projection implements the ODF white-space rules; element-only containers ignore white-space-only text",
    "flat XML is compared on paragraph projections and attribute multiset of the body/styles it embeds (images are base64-inlined there)",
]


# ------------------------------------------------------------------ building the enumeration document
def inline(kind, n):
    from odfdo import Annotation, Bookmark, Frame, LineBreak, Link, Note, Paragraph, Spacer, Span, Tab
    from odfdo.variable import VarPageNumber

    if ">" in kind:
        # nested: an inline container whose last child is a tail-less inline element
        outer, rest = kind.split(">", 1)
        cont = Span(f"sp{n}", style="T1") if outer == "span" else Link("http://example.org/", text=f"ln{n}")
        from odfdo import Element as _E

        _E.append(cont, inline(rest, n + 1000))
        return cont
    if kind == "s":
        return Spacer(2)
    if kind == "tab":
        return Tab()
    if kind == "lb":
        return LineBreak()
    if kind == "span":
        return Span(f"sp{n}", style="T1")
    if kind == "link":
        return Link("http://example.org/", text=f"ln{n}")
    if kind == "note":
        return Note("footnote", note_id=f"n{n}", citation="1", body=f"note{n}")
    if kind == "annot":
        from datetime import datetime

        return Annotation(f"ann{n}", creator="me", name=f"a{n}", date=datetime(2024, 1, 31, 10, 0, 0))
    if kind == "bm":
        return Bookmark(f"bm{n}")
    if kind == "frame":
        # even n: a picture that exists in the package and is shared by every such frame; odd n: a dangling reference
        return Frame.image_frame("Pictures/shared.png" if n % 2 == 0 else "Pictures/none.png", size=("1cm", "1cm"), anchor_type="as-char", name=f"f{n}")
    if kind == "field":
        return VarPageNumber()
    raise ValueError(kind)


def make_par(seq, gaps, n, heading=False):
    """seq: tuple of kinds; gaps: tuple of bool (text between consecutive items)"""
    from odfdo import Element, Header, Paragraph

    p = Header(1, "") if heading else Paragraph("")
    for i, k in enumerate(seq):
        if k == "text":
            Element.append(p, f"w{n}x{i}")
        elif k == "btext":
            Element.append(p, f" b{n}x{i} ")
        else:
            Element.append(p, inline(k, n * 10 + i))
        if i < len(seq) - 1 and gaps[i]:
            Element.append(p, "g")
    return p


def wrap(par, container, n):
    from odfdo import Cell, Frame, List, ListItem, Note, Paragraph, Row, Table

    if container in ("p", "h"):
        return par
    if container == "li":
        lst = List()
        item = ListItem()
        item.append(par)
        lst.append(item)
        return lst
    if container == "cell":
        t = Table(f"T{n}")
        row = Row()
        cell = Cell()
        cell.append(par)
        row.append_cell(cell)
        t.append_row(row)
        return t
    if container == "notebody":
        host = Paragraph(f"host{n}")
        note = Note("footnote", note_id=f"nb{n}", citation="2", body="")
        body = note.get_element("text:note-body")
        for ch in body.children:
            body.delete(ch)
        body.append(par)
        host.append(note)
        return host
    if container == "textbox":
        host = Paragraph("")
        frame = Frame.text_frame(par, size=("4cm", "1cm"), anchor_type="as-char", name=f"tb{n}")
        host.append(frame)
        return host
    raise ValueError(container)


def nontrivial_seq(seq, gaps):
    for i, k in enumerate(seq):
        if k in ("text", "btext"):
            continue
        last = i == len(seq) - 1
        if last or not gaps[i]:
            return True
    return False


# ------------------------------------------------------------------ reading packages
def views(xml_bytes):
    """Layout-independent description of one XML part."""
    root = odfread.parse(xml_bytes)
    for g in root.iter(odfread.q("meta:generator")):
        g.text = None
    pars = [odfread.plain_projection(p) for p in odfread.paragraphs(root)]
    skel = [e.tag for e in root.iter() if isinstance(e.tag, str)]
    attrs = sorted((e.tag, k, v) for e in root.iter() if isinstance(e.tag, str) for k, v in e.attrib.items())
    leaves = []
    for e in root.iter():
        if isinstance(e.tag, str) and len(e) == 0 and e.tag not in (odfread.T_P, odfread.T_H) and e.text and e.text.strip():
            if not any(a.tag in (odfread.T_P, odfread.T_H) for a in e.iterancestors()):
                leaves.append((e.tag, e.text if e.tag in STRING_LEAVES else e.text.strip()))
    return {"paragraphs": pars, "skeleton": skel, "attributes": attrs, "leaves": leaves}


STRING_LEAVES = {odfread.q("dc:title"), odfread.q("dc:description"), odfread.q("dc:subject"), odfread.q("meta:keyword"),
                 odfread.q("meta:user-defined"), odfread.q("dc:creator"), odfread.q("meta:initial-creator")}
XML_NAMES = ("content.xml", "styles.xml", "meta.xml", "settings.xml", "manifest.xml")


def package_views(parts):
    return {n: views(d) for n, d in parts.items() if Path(n).name in XML_NAMES}


def compare(ctx, ref, other, what, case):
    for name in sorted(ref):
        if name not in other:
            ctx.fail(("C11", what, "part-missing"), f"{name} missing in {what}", case)
            continue
        for key in ("paragraphs", "skeleton", "attributes", "leaves"):
            a, b = ref[name][key], other[name][key]
            if a != b:
                diff = next((i for i, (x, y) in enumerate(zip(a, b)) if x != y), min(len(a), len(b)))
                ctx.fail(("C11", what, key + "-differ"),
                         f"{name}: {key} differ between the plain zip save and {what} at index {diff}: "
                         f"{a[diff] if diff < len(a) else None!r} vs {b[diff] if diff < len(b) else None!r}", case)


def memory_snapshot(doc):
    out = {}
    for short in ("content", "styles", "meta", "settings", "manifest"):
        out[short] = canon(short + ".xml" if short != "meta" else "meta.xml", doc.get_part(short).serialize()), \
            strip_gen_text(doc.get_part(short).serialize())
    return out


def strip_gen_text(data):
    import re

    return re.sub(rb"<meta:generator>[^<]*</meta:generator>", b"<meta:generator/>", data)


def judge_document(ctx, make_doc, case, scratch):
    """make_doc() -> fresh Document (same content every time)."""
    from odfdo import Document

    def save_zip(doc, pretty):
        buf = io.BytesIO()
        doc.save(buf, pretty=pretty)
        return {odfread_norm(k): v for k, v in odfread.read_zip(buf.getvalue())[1].items()}

    with ctx.guard(("C11", "save", "exception"), case):
        ref_parts = save_zip(make_doc(), False)
        ref = package_views(ref_parts)
        # memory neutrality + sequences on one live document
        for seq in (("plain", "plain"), ("pretty", "plain"), ("pretty", "pretty", "plain"), ("folder", "plain"), ("xml", "plain"),
                    ("xmlpretty", "plain")):
            doc = make_doc()
            before = memory_snapshot(doc)
            last = None
            for i, how in enumerate(seq):
                if how in ("plain", "pretty"):
                    last = save_zip(doc, how == "pretty")
                    if how == "pretty":
                        compare(ctx, ref, package_views(last), "pretty zip", case)
                elif how == "folder":
                    target = scratch / f"f{ctx.evaluations}"
                    shutil.rmtree(str(target) + ".folder", ignore_errors=True)
                    doc.save(str(target), packaging="folder")
                    fparts = odfread.read_folder(Path(str(target) + ".folder"))
                    compare(ctx, ref, package_views(fparts), "folder (pretty)", case)
                    shutil.rmtree(str(target) + ".folder", ignore_errors=True)
                else:
                    buf = io.BytesIO()
                    doc.save(buf, packaging="xml", pretty=how == "xmlpretty")
                    judge_flat(ctx, ref_parts, buf.getvalue(), how, case)
                after = memory_snapshot(doc)
                for part in before:
                    ctx.check(after[part][1] == before[part][1], ("C11", "memory", "changed-by-" + how),
                              f"in-memory {part} changed by save #{i + 1} ({how}) of sequence {seq}", case)
            # the final plain save of every sequence equals the reference plain save
            for name, data in ref_parts.items():
                if Path(name).name in XML_NAMES:
                    ctx.check(canon(name, last[name]) == canon(name, data), ("C11", "sequence", "plain-output-differs"),
                              f"{name}: plain save after {seq[:-1]} differs from a plain save of the same document", case)


def odfread_norm(n):
    return n.replace("\\", "/")


def judge_flat(ctx, ref_parts, data, how, case):
    try:
        root = odfread.parse(data)
    except Exception as e:
        ctx.fail(("C11", "flat-" + how, "not-well-formed"), str(e), case)
        return
    want = []
    for name in ("styles.xml", "content.xml"):
        want += [odfread.plain_projection(p) for p in odfread.paragraphs(odfread.parse(ref_parts[name]))]
    got = [odfread.plain_projection(p) for p in odfread.paragraphs(root)]
    # content inclusion: empty paragraphs (e.g. the text:p inside a draw:image that gets inlined) are not content
    want = [x for x in want if x]
    got = [x for x in got if x]
    # every frame keeps its image(s): in flat XML the reference becomes inline data, the element stays
    def frame_images(r):
        return [(f.get(odfread.q("draw:name")), sum(1 for c in f if c.tag == odfread.q("draw:image"))) for f in r.iter(odfread.q("draw:frame"))]

    want_f = frame_images(odfread.parse(ref_parts["styles.xml"])) + frame_images(odfread.parse(ref_parts["content.xml"]))
    got_f = frame_images(root)
    ctx.check(got_f == want_f, ("C11", "flat-" + how, "frame-images-differ"),
              f"flat XML ({how}): (frame name, number of draw:image) {[x for x in got_f if x not in want_f][:4]} ... expected as in the plain save "
              f"{[x for x in want_f if x not in got_f][:4]}", case)
    ctx.check(got == want, ("C11", "flat-" + how, "paragraphs-differ"),
              f"flat XML ({how}) paragraphs differ from the plain save: first difference "
              f"{next(((a, b) for a, b in zip(got, want) if a != b), (len(got), len(want)))!r}", case)


# ------------------------------------------------------------------ drivers
NESTED = ["span>s", "span>tab", "span>lb", "span>bm", "span>note", "link>s", "span>span>s", "span>field"]


def enum_cases(maxlen):
    n = 0
    for L in range(1, maxlen + 1):
        for seq in itertools.product(KINDS + NESTED if L <= 2 else KINDS, repeat=L):
            for gaps in itertools.product((False, True), repeat=max(L - 1, 0)):
                n += 1
                yield n, seq, gaps


def run_batch(ctx, batch, scratch):
    """batch: list of (n, seq, gaps, container)"""
    from odfdo import Document

    case = {"kind": "batch", "items": [[n, list(seq), list(gaps), cont] for n, seq, gaps, cont in batch]}

    def make_doc():
        doc = Document("text")
        body = doc.body
        body.clear()
        for n, seq, gaps, cont in batch:
            body.append(wrap(make_par(seq, gaps, n, heading=cont == "h"), cont, n))
        from lib.docmachine import PNG

        doc.set_part("Pictures/shared.png", PNG)
        doc.manifest.add_full_path("Pictures/shared.png", "image/png")
        return doc

    judge_document(ctx, make_doc, case, scratch)


def shrink_batch(ctx, v, batch, scratch):
    """a failing batch of 12 paragraphs is reduced to a single failing paragraph when possible"""
    from lib.harness import Ctx

    for item in batch:
        sub = Ctx(ctx.prop_id, ctx.tier, ctx.seed, 0, 1, replaying=True)
        try:
            run_batch(sub, [item], scratch)
        except Violation as w:
            if w.signature == v.signature:
                return w
        except Exception:
            pass
    return v


def replay(case, ctx):
    scratch = scratch_dir("C11-replay")
    try:
        if case["kind"] == "batch":
            run_batch(ctx, [(n, tuple(seq), tuple(gaps), cont) for n, seq, gaps, cont in case["items"]], scratch)
        else:
            run_corpus_case(ctx, case, scratch)
    except Abandon:
        pass
    finally:
        shutil.rmtree(scratch, ignore_errors=True)


def run_corpus_case(ctx, case, scratch):
    from odfdo import Document, Header, Paragraph

    src = case["source"]

    def make_doc():
        if src["kind"] == "template":
            doc = Document(src["name"])
        else:
            data = (corpus.samples_dir() / src["name"]).read_bytes()
            if src.get("decor"):
                data = corpus.decorate(data)  # comments and processing instructions around / inside the roots
            doc = Document(io.BytesIO(data))
        for i, e in enumerate(case["edits"]):
            if e == "par":
                doc.body.append(Paragraph(f"added{i}  two  blanks"))
            elif e == "head":
                doc.body.append(Header(1, f"head{i}"))
            elif e == "meta":
                doc.meta.title = f" title {i} "
            elif e == "user":
                doc.meta.set_user_defined_metadata(f"k{i}", f" v {i} ")
            elif e == "read":
                doc.styles.root  # noqa: B018
        return doc

    judge_document(ctx, make_doc, case, scratch)


def run_shard(ctx):
    scratch = scratch_dir(f"C11-{ctx.shard}")
    try:
        maxlen = 3

        def enum(_r):
            batch = []
            k = 0
            for n, seq, gaps in enum_cases(maxlen):
                for ci, cont in enumerate(CONTAINERS):
                    # every adjacency in p; other containers rotate to bound the cost
                    if cont != "p" and ((n + ci) % 3 or (len(seq) == 3 and not ctx.thorough)):
                        continue
                    k += 1
                    if k % ctx.nshards != ctx.shard:
                        continue
                    batch.append((n, seq, gaps, cont))
                    ctx.ev()
                    if nontrivial_seq(seq, gaps):
                        ctx.nontrivial((seq, gaps, cont))
                    if len(batch) == 12:
                        try:
                            run_batch(ctx, batch, scratch)
                        except Abandon:
                            pass
                        except Violation as v:
                            ctx.record(shrink_batch(ctx, v, batch, scratch))
                        if len(ctx.samples) < 2:
                            ctx.sample({"kind": "batch", "items": [[a, list(b), list(c), d] for a, b, c, d in batch[:3]]})
                        batch = []
            if batch:
                try:
                    run_batch(ctx, batch, scratch)
                except Abandon:
                    pass
                except Violation as v:
                    ctx.record(shrink_batch(ctx, v, batch, scratch))
            ctx.extra["exhaustive"] = True
            ctx.extra["exhaustive_bound"] = f"ordered adjacencies of {len(KINDS)} inline kinds up to length {maxlen}, with/without text in each gap"

        ctx.engine.add("enumeration")
        ctx.rounds_loop(enum)

        srcs = [{"kind": "template", "name": t} for t in corpus.TEMPLATES]
        srcs += [{"kind": "sample", "name": p.name} for p in corpus.sample_files() if ctx.thorough or p.stat().st_size < 60_000]
        srcs += [{"kind": "sample", "name": p.name, "decor": True} for p in corpus.sample_files() if p.stat().st_size < 30_000]
        mine = [s for i, s in enumerate(srcs) if i % ctx.nshards == ctx.shard]
        if mine:
            cases = st.fixed_dictionaries({"kind": st.just("corpus"), "source": st.sampled_from(mine),
                                           "edits": st.lists(st.sampled_from(["par", "head", "meta", "user", "read"]), max_size=3)})

            def mk():
                @given(cases)
                def t(case):
                    ctx.ev()
                    ctx.count("corpus:" + case["source"]["name"])
                    try:
                        run_corpus_case(ctx, case, scratch)
                        ctx.nontrivial(case)
                    except Abandon:
                        pass
                return t

            ctx.run_given(mk, max(3, (len(mine) * (8 if ctx.thorough else 2))), salt=1)
    finally:
        shutil.rmtree(scratch, ignore_errors=True)
