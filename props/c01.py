"""C01 - the table editing API behaves like a plain grid under every history."""
from lib import corpus
from lib.harness import Abandon
from lib.tablemachine import make_machine, run_history

ID = "C01"
RULE = (
    "Hypothesis rule-based state machine over a real odfdo Table and an uncompressed list-of-lists grid: initial table "
    "empty / width x height / run-length description built through the API or as literal XML / a table of the sample "
    "corpus; rules = every public Table and Row editing operation with coordinates in range, at the edge, beyond, negative, "
    "as tuple/list/'C4' string, and repeated cells/rows/columns as arguments; after every step a read battery (size, "
    "get_values, iter_values, get_row, get_row_values, get_value, get_cell, get_column_values, get_column_cells, traverse, "
    "traverse_columns, area reads) must equal the grid. Evaluations = machine steps. Non-trivial history = contains an op "
    "whose target lay inside a repeated run at call time, or a repeated argument, or a column op on a ragged table / "
    "splitting a cell run; distinct by (initial spec, op list)."
    ' Initial tables also: a constructor with one dimension omitted or 0, office-suite shaped tables (repeated column decla'
    'ration with a default cell style, a merged title followed by one repeated covered cell, repeated empty tail). Row obje'
    'cts may be kept by the caller (with or without clone=False) and handed in again (reuse_row, template_row_cycle); what '
    'a re-used object contributes is its XML read independently at that moment.'
)
ASSUMPTIONS = [
    "lib/gridmodel.py transcribes the documented semantics of each operation (docstrings of table.py/row.py)",
    "writing beyond the end pads with empty cells/rows; a column-less table declares max(1,row width) columns on its first row",
    "negative coordinates only in -size..-1",
    "lxml parsing of the serialised table is used only to classify cases, never as the oracle here",
]


def run_shard(ctx):
    specs = corpus.table_specs()
    M = make_machine(ctx, "C01", specs)
    ctx.run_machine(M, ctx.budget(16 * 100, 16 * 350), 25 if not ctx.thorough else 50, replay=replay_raise)


def replay_raise(case, ctx):
    run_history(case["initial"], case["ops"], "C01", ctx)


def replay(case, ctx):
    try:
        run_history(case["initial"], case["ops"], "C01", ctx)
    except Abandon:
        pass
