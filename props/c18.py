"""C18 - date, time, duration, boolean, colour, length codecs: exact inverses in
ODF lexical form; decoding rejects what is outside the form.

Drivers: E (boundary lattices, enumerated and split over the shards) + H (random
values in the same domains) + mutation of valid encodings for the rejection
clause; thorough adds the full 2^24 colour cube and an atheris campaign.
"""

from __future__ import annotations

import itertools
import re
from datetime import date, datetime, timedelta, timezone
from decimal import Decimal

from hypothesis import given, strategies as st

from lib.harness import Abandon, Violation

ID = "C18"
RULE = (
    "E: boundary lattices (dates: 13 years x month starts/ends/leap days; datetimes: date sample x "
    "h{0,1,12,23} x m,s{0,1,59} x us{0,1,999,1000,999999} x tz{none,Z,-14:00..+14:00 step 15min sample}; "
    "durations: +-{0..3,59..61,3599..3601,86399..86401} + day multiples to 10^6 days; booleans; all CSS names "
    "in 4 spellings; colour lattice step 5 (thorough: all 2^24); lengths: 4-digit decimals x 7 units), "
    "H: random values in the same domains; rejection: every single-character deletion/duplication/"
    "insertion mutant of valid encodings that leaves the xsd lexical form must raise. "
    "Non-trivial = lattice boundary value or a mutant outside the lexical form; distinct by (kind, repr)."
    ' Also duration strings with fractional seconds (either sign), non-normalised and zero forms decoded against the indepe'
    'ndent model; Unit built from bare numeric strings with varying unit arguments.'
)
ASSUMPTIONS = [
    "Python datetime/timedelta/Decimal arithmetic and `re` are correct",
    "the xsd lexical regexes in this module transcribe XML Schema part 2 (dateTime, date, duration, boolean) and ODF #rrggbb",
    "Date.decode returning a datetime at midnight counts as equal to the date (documented)",
    "date/dateTime rejection restricted to strings wrong in any ISO reading (fromisoformat accepts basic/week forms)",
    "odfdo.const.CSS3_COLORMAP is trusted as data except for 16 anchor colours checked against CSS values",
]

RE_DATE = re.compile(r"-?\d{4,}-\d\d-\d\d(Z|[+-]\d\d:\d\d)?\Z", re.ASCII)
RE_DATETIME = re.compile(r"-?\d{4,}-\d\d-\d\dT\d\d:\d\d:\d\d(\.\d+)?(Z|[+-]\d\d:\d\d)?\Z", re.ASCII)
RE_DURATION = re.compile(
    r"-?P(?=\d|T\d)(\d+Y)?(\d+M)?(\d+D)?(T(?=\d)(\d+H)?(\d+M)?(\d+(\.\d+)?S)?)?\Z", re.ASCII
)
RE_COLOR = re.compile(r"#[0-9A-Fa-f]{6}\Z")
RE_LENGTH = re.compile(r"-?([0-9]+(\.[0-9]*)?|\.[0-9]+)(cm|mm|in|pt|pc|px|%)\Z")

ANCHOR_COLORS = {
    "black": (0, 0, 0), "white": (255, 255, 255), "red": (255, 0, 0), "lime": (0, 255, 0),
    "blue": (0, 0, 255), "yellow": (255, 255, 0), "cyan": (0, 255, 255), "magenta": (255, 0, 255),
    "silver": (192, 192, 192), "gray": (128, 128, 128), "maroon": (128, 0, 0), "olive": (128, 128, 0),
    "green": (0, 128, 0), "purple": (128, 0, 128), "teal": (0, 128, 128), "navy": (0, 0, 128),
}

YEARS = [1, 2, 99, 100, 999, 1000, 1899, 1900, 1970, 2000, 2024, 9998, 9999]
UNITS = ["cm", "mm", "in", "pt", "pc", "px", "%"]


def _dur_model(s: str):
    """Independent decoder of an xsd:duration without Y/M(month) part (seconds with up to 6 fraction digits) -> timedelta,
    else None."""
    m = re.match(r"(-?)P(?:(\d+)D)?(?:T(?:(\d+)H)?(?:(\d+)M)?(?:(\d+)(?:\.(\d{1,6}))?S)?)?\Z", s, re.ASCII)
    if not m or not RE_DURATION.match(s):
        return None
    sign = -1 if m.group(1) else 1
    d, h, mi, se = (int(g) if g else 0 for g in m.groups()[1:5])
    us = int((m.group(6) or "0").ljust(6, "0"))  # a fraction of up to 6 digits is exactly representable
    try:
        return sign * timedelta(days=d, hours=h, minutes=mi, seconds=se, microseconds=us)
    except OverflowError:
        return None


# ------------------------------------------------------------------ lattices
def lattice_dates():
    out = []
    for y in YEARS:
        for m in range(1, 13):
            out.append(date(y, m, 1))
            nxt = date(y + (m == 12), m % 12 + 1, 1) if not (y == 9999 and m == 12) else None
            last = (nxt - timedelta(days=1)) if nxt else date(9999, 12, 31)
            out.append(last)
            out.append(date(y, m, 15))
        if y % 4 == 0 and (y % 100 != 0 or y % 400 == 0):
            out.append(date(y, 2, 29))
    return out


def lattice_tz():
    tzs = [None, timezone.utc]
    for minutes in list(range(-14 * 60, 14 * 60 + 1, 15)):
        tzs.append(timezone(timedelta(minutes=minutes)))
    return tzs


def lattice_datetimes():
    dates = [date(1, 1, 1), date(1, 12, 31), date(999, 2, 28), date(1000, 1, 1), date(1970, 1, 1),
             date(2000, 2, 29), date(2024, 1, 31), date(2024, 12, 31), date(9999, 12, 31)]
    tzs = lattice_tz()
    tz_small = [None, timezone.utc, timezone(timedelta(minutes=-14 * 60)), timezone(timedelta(minutes=14 * 60)),
                timezone(timedelta(minutes=330)), timezone(timedelta(minutes=-15)), timezone(timedelta(0))]
    for d in dates:
        for h in (0, 1, 12, 23):
            for mi in (0, 1, 59):
                for s in (0, 1, 59):
                    for us in (0, 1, 999, 1000, 999999):
                        for tz in tz_small:
                            yield datetime(d.year, d.month, d.day, h, mi, s, us, tzinfo=tz)
    for tz in tzs:
        for d in dates:
            yield datetime(d.year, d.month, d.day, 12, 30, 15, 0, tzinfo=tz)
            yield datetime(d.year, d.month, d.day, 0, 0, 0, 0, tzinfo=tz)


def lattice_durations():
    base = [0, 1, 2, 3, 59, 60, 61, 3599, 3600, 3601, 86399, 86400, 86401]
    secs = set()
    for b in base:
        secs.add(b)
        secs.add(-b)
        for days in (1, 2, 30, 31, 365, 366, 1000, 10**4, 10**5, 10**6, 1095727):
            secs.add(days * 86400 + b)
            secs.add(-(days * 86400 + b))
            secs.add(days * 86400 - b)
    return [timedelta(seconds=s) for s in sorted(secs)]


def lattice_lengths():
    vals = ["0", "1", "0.5", "0.05", "0.0001", "1.0", "1.50", "10", "12.3456", "100", "999999", "21.59", "2.54"]
    for v in vals:
        for sign in ("", "-"):
            for u in UNITS:
                yield Decimal(sign + v), u


# ------------------------------------------------------------------ oracles
def roundtrip_date(ctx, d, tag):
    from odfdo.datatype import Date

    case = {"kind": "date", "value": d.isoformat(), "from": tag}
    with ctx.guard(("C18", "Date", "exception"), case):
        s = Date.encode(d)
        ctx.check(RE_DATE.match(s), ("C18", "Date.encode", "lexical"), f"{d!r} -> {s!r} not xsd:date", case)
        ctx.check(s == d.isoformat()[:10] if isinstance(d, date) else True, ("C18", "Date.encode", "value"),
                  f"{d!r} -> {s!r}", case)
        back = Date.decode(s)
        bd = back.date() if isinstance(back, datetime) else back
        want = d.date() if isinstance(d, datetime) else d
        ctx.check(bd == want and (not isinstance(back, datetime) or back.time() == datetime.min.time()),
                  ("C18", "Date", "roundtrip"), f"{d!r} -> {s!r} -> {back!r}", case)
        ctx.check(Date.encode(back) == s, ("C18", "Date", "re-encode"), f"{s!r} -> {back!r} -> {Date.encode(back)!r}", case)


def roundtrip_datetime(ctx, dt, tag):
    from odfdo.datatype import DateTime

    case = {"kind": "datetime", "value": dt.isoformat(), "from": tag}
    with ctx.guard(("C18", "DateTime", "exception"), case):
        s = DateTime.encode(dt)
        ctx.check(RE_DATETIME.match(s), ("C18", "DateTime.encode", "lexical"), f"{dt!r} -> {s!r} not xsd:dateTime", case)
        back = DateTime.decode(s)
        ok = back == dt and (back.tzinfo is None) == (dt.tzinfo is None)
        if ok and dt.tzinfo is not None:
            ok = back.utcoffset() == dt.utcoffset()
        ok = ok and back.replace(tzinfo=None) == dt.replace(tzinfo=None)
        ctx.check(ok, ("C18", "DateTime", "roundtrip"), f"{dt!r} -> {s!r} -> {back!r}", case)
        ctx.check(DateTime.encode(back) == s, ("C18", "DateTime", "re-encode"), f"{s!r} -> {back!r}", case)


def roundtrip_duration(ctx, td, tag):
    from odfdo.datatype import Duration

    case = {"kind": "duration", "value": [td.days, td.seconds, td.microseconds], "from": tag}
    with ctx.guard(("C18", "Duration", "exception"), case):
        s = Duration.encode(td)
        ctx.check(RE_DURATION.match(s), ("C18", "Duration.encode", "lexical"), f"{td!r} -> {s!r} not xsd:duration", case)
        model = _dur_model(s)
        ctx.check(model == td, ("C18", "Duration.encode", "value"),
                  f"{td!r} -> {s!r} which an independent reader decodes as {model!r}", case)
        back = Duration.decode(s)
        ctx.check(back == td, ("C18", "Duration", "roundtrip"), f"{td!r} -> {s!r} -> {back!r}", case)
        ctx.check(Duration.encode(back) == s, ("C18", "Duration", "re-encode"), f"{s!r} -> {back!r}", case)


def roundtrip_bool(ctx):
    from odfdo.datatype import Boolean

    for b in (True, False):
        case = {"kind": "boolean", "value": b}
        with ctx.guard(("C18", "Boolean", "exception"), case):
            s = Boolean.encode(b)
            ctx.check(s == ("true" if b else "false"), ("C18", "Boolean.encode", "lexical"), f"{b} -> {s!r}", case)
            back = Boolean.decode(s)
            ctx.check(back is b, ("C18", "Boolean", "roundtrip"), f"{b} -> {s!r} -> {back!r}", case)
            ctx.check(Boolean.encode(back) == s, ("C18", "Boolean", "re-encode"), s, case)
        ctx.ev()
        ctx.nontrivial(("bool", b))


def roundtrip_color(ctx, rgb, tag, nt=True):
    from odfdo.utils.color import hex2rgb, hexa_color, rgb2hex

    case = {"kind": "colour", "value": list(rgb), "from": tag}
    with ctx.guard(("C18", "colour", "exception"), case):
        s = rgb2hex(rgb)
        ok = bool(RE_COLOR.match(s)) and s == "#%02X%02X%02X" % rgb
        ctx.check(ok, ("C18", "rgb2hex", "lexical"), f"{rgb} -> {s!r}", case)
        back = hex2rgb(s)
        ctx.check(tuple(back) == tuple(rgb), ("C18", "colour", "roundtrip"), f"{rgb} -> {s!r} -> {back!r}", case)
        ctx.check(tuple(hex2rgb(s.lower())) == tuple(rgb), ("C18", "hex2rgb", "lowercase"), f"{s.lower()!r}", case)
        ctx.check(hexa_color(rgb) == s, ("C18", "hexa_color", "tuple"), f"{rgb} -> {hexa_color(rgb)!r}", case)


def check_css(ctx, name, spelling):
    from odfdo.const import CSS3_COLORMAP
    from odfdo.utils.color import hex2rgb, hexa_color, rgb2hex

    case = {"kind": "css", "value": spelling}
    with ctx.guard(("C18", "css", "exception"), case):
        want = tuple(CSS3_COLORMAP[name])
        if name in ANCHOR_COLORS:
            ctx.check(want == ANCHOR_COLORS[name], ("C18", "css", "table"), f"{name} = {want}", case)
        s = hexa_color(spelling)
        ctx.check(s is not None and RE_COLOR.match(s), ("C18", "hexa_color", "lexical"), f"{spelling!r} -> {s!r}", case)
        ctx.check(tuple(hex2rgb(s)) == want, ("C18", "css", "roundtrip"), f"{spelling!r} -> {s!r}", case)
        if spelling == spelling.strip():
            s2 = rgb2hex(spelling)
            ctx.check(s2 == s, ("C18", "rgb2hex", "name"), f"{spelling!r} -> {s2!r} vs {s!r}", case)


def roundtrip_length(ctx, value, unit, tag):
    from odfdo.datatype import Unit

    case = {"kind": "length", "value": str(value), "unit": unit, "from": tag}
    with ctx.guard(("C18", "Unit", "exception"), case):
        u = Unit(value, unit)
        s = str(u)
        ctx.check(RE_LENGTH.match(s), ("C18", "Unit.str", "lexical"), f"{value!r},{unit!r} -> {s!r}", case)
        back = Unit(s)
        ctx.check(back.unit == unit and back.value == Decimal(str(value)), ("C18", "Unit", "roundtrip"),
                  f"Unit({value!r},{unit!r}) -> {s!r} -> value={back.value!r} unit={back.unit!r}", case)
        ctx.check(str(back) == s, ("C18", "Unit", "re-encode"), f"{s!r} -> {str(back)!r}", case)
        # the number given as a bare string takes the unit argument (documented default cm), every time, whatever was
        # parsed before
        bare = str(value)
        for un in (unit, None, "pt", unit):
            u2 = Unit(bare, un) if un is not None else Unit(bare)
            want_unit = un or "cm"
            ctx.check(u2.unit == want_unit and u2.value == Decimal(bare) and str(u2) == bare + want_unit, ("C18", "Unit", "bare-string-unit"),
                      f"Unit({bare!r}{'' if un is None else ', ' + repr(un)}) -> value={u2.value!r} unit={u2.unit!r} str={str(u2)!r}", case)


ALIEN = ["x", " ", "/", "#", "\uff11", "\u0663", "\n"]


def mutants(s, alien=ALIEN):
    out = {"", " " + s, s + " ", s + s}
    for i in range(len(s)):
        out.add(s[:i] + s[i + 1:])
        out.add(s[:i] + s[i] + s[i:])
        for a in alien:
            out.add(s[:i] + a + s[i:])
            out.add(s[:i] + a + s[i + 1:])
    out.discard(s)
    return sorted(out)


def must_reject(ctx, kind, decode, m, lexical, origin):
    """m is outside the lexical form: decode must raise, never return."""
    if lexical.match(m):
        ctx.count(f"mutant-still-lexical:{kind}")
        return
    case = {"kind": "reject-" + kind, "value": m, "origin": origin}
    ctx.ev()
    ctx.nontrivial(("reject", kind, m))
    try:
        got = decode(m)
    except Exception:
        ctx.count(f"rejected:{kind}")
        return
    ctx.fail(("C18", kind + ".decode", "accepts-non-lexical"), f"decode({m!r}) returned {got!r} (mutant of {origin!r})", case)


def date_wrong_strings():
    # wrong in any ISO reading (2.4): alien characters, out-of-range fields, blanks, empty
    out = ["", " ", "2024-13-01", "2024-00-10", "2024-01-32", "2024-02-30", "2023-02-29", "2024-01-00",
           " 2024-01-31", "2024-01-31 ", "2024-01-31\n", "2024/01/31", "2024-01-31x", "x2024-01-31",
           "2024-0x-31", "0000-01-01", "2024-1-1x", "\uff12\uff10\uff12\uff14-01-31", "10000-01-01x"]
    return out


def datetime_wrong_strings():
    return ["", " ", "2024-01-31T24:00:01", "2024-01-31T25:00:00", "2024-01-31T10:60:00", "2024-01-31T10:00:60",
            "2024-13-31T10:00:00", "2024-02-30T10:00:00", " 2024-01-31T10:00:00", "2024-01-31T10:00:00 ",
            "2024-01-31T10:00:00x", "2024-01-31T10:00:00+25:00", "2024-01-31T10:00:00+", "2024-01-31Tx0:00:00",
            "2024-01-31T10:00:00.x", "2024-01-31T10:00:00ZZ", "2024-01-31T1\uff10:00:00", "2024-01-31T10:00:00+01:0x"]


# ------------------------------------------------------------------ driver
def run_case(case, ctx):
    k = case["kind"]
    if k == "date":
        roundtrip_date(ctx, date.fromisoformat(case["value"]), "replay")
    elif k == "datetime":
        roundtrip_datetime(ctx, datetime.fromisoformat(case["value"]), "replay")
    elif k == "duration":
        d, s, us = case["value"]
        roundtrip_duration(ctx, timedelta(days=d, seconds=s, microseconds=us), "replay")
    elif k == "boolean":
        roundtrip_bool(ctx)
    elif k == "colour":
        roundtrip_color(ctx, tuple(case["value"]), "replay")
    elif k == "css":
        check_css(ctx, case["value"].strip().lower(), case["value"])
    elif k == "length":
        roundtrip_length(ctx, Decimal(case["value"]), case["unit"], "replay")
    elif k == "zoned":
        from odfdo.datatype import Date as _Date

        dtz = datetime.fromisoformat(case["value"])
        _Date.encode(dtz.astimezone(timezone.utc))  # the equal instant, seen from UTC, encoded first
        ctx.check(_Date.encode(dtz) == dtz.date().isoformat(), ("C18", "Date.encode", "value"),
                  f"Date.encode({dtz!r}) = {_Date.encode(dtz)!r}, that zone's day is {dtz.date().isoformat()!r}", case)
    elif k == "duration-decode":
        from odfdo.datatype import Duration

        m = case["value"]
        model = _dur_model(m)
        try:
            got = Duration.decode(m)
        except Exception as e:
            got = "raised"
            if model is not None:
                ctx.fail(("C18", "Duration.decode", "exception-on-lexical", type(e).__name__), f"decode({m!r}) raised {e!r}", case)
        if model is not None:
            ctx.check(got == model, ("C18", "Duration.decode", "value"), f"decode({m!r}) = {got!r}, xsd value {model!r}", case)
        elif got != "raised":
            frac = re.match(r"(-?)PT(\d+)\.(\d+)S\Z", m, re.ASCII)
            okv = bool(frac) and got == (-1 if frac.group(1) else 1) * timedelta(seconds=float(f"{frac.group(2)}.{frac.group(3)}"))
            ctx.check(okv, ("C18", "Duration.decode", "wrong-value"), f"decode({m!r}) returned {got!r}", case)
    elif k.startswith("reject-"):
        kind = k[len("reject-"):]
        dec, lex = _decoders()[kind]
        must_reject(ctx, kind, dec, case["value"], lex, case.get("origin"))
    else:
        raise ValueError(k)


def replay(case, ctx):
    try:
        run_case(case, ctx)
    except Abandon:
        pass


def _decoders():
    from odfdo.datatype import Boolean, Date, DateTime, Duration
    from odfdo.utils.color import hex2rgb

    never = re.compile(r"(?!x)x")  # date/datetime wrong-string lists are non-lexical by construction
    return {
        "Duration": (Duration.decode, RE_DURATION),
        "Boolean": (Boolean.decode, re.compile(r"(true|false)\Z")),
        "hex2rgb": (hex2rgb, RE_COLOR),
        "Date": (Date.decode, never),
        "DateTime": (DateTime.decode, never),
    }


def A(fn, *args):
    """Run one case; a case whose failure signature was already reported in
    this run is abandoned, the enumeration goes on."""
    try:
        fn(*args)
    except Abandon:
        pass


def _mine(ctx, seq):
    for i, item in enumerate(seq):
        if i % ctx.nshards == ctx.shard:
            yield item


def run_shard(ctx):
    from odfdo.const import CSS3_COLORMAP

    dec = _decoders()

    def enumerate_all(_rnd):
        try:
            for d in _mine(ctx, lattice_dates()):
                ctx.ev(); ctx.count("date-lattice"); ctx.nontrivial(("date", d.isoformat()))
                A(roundtrip_date, ctx, d, "lattice")
            for dt in _mine(ctx, lattice_datetimes()):
                ctx.ev(); ctx.count("datetime-lattice"); ctx.nontrivial(("dt", dt.isoformat()))
                A(roundtrip_datetime, ctx, dt, "lattice")
                if dt.microsecond == 0 and dt.tzinfo is None:
                    A(roundtrip_date, ctx, dt, "lattice-datetime-as-date")
            # one instant seen from several time zones: each encoding is that zone's own calendar day / clock time, whatever was
            # encoded before (equal instants compare equal in Python)
            if ctx.shard == 0:
                from odfdo.datatype import Date as _Date, DateTime as _DateTime

                for base in (datetime(2024, 6, 30, 23, 30, tzinfo=timezone.utc), datetime(2000, 1, 1, 0, 0, tzinfo=timezone.utc),
                             datetime(1999, 12, 31, 12, 0, tzinfo=timezone.utc), datetime(2024, 2, 29, 22, 15, 30, tzinfo=timezone.utc)):
                    for off in (0, 120, -120, 840, -720, 330, 0, -1, 1):
                        dtz = base.astimezone(timezone(timedelta(minutes=off)))
                        case = {"kind": "zoned", "value": dtz.isoformat()}
                        ctx.ev(); ctx.count("same-instant-other-zone"); ctx.nontrivial(("zoned", dtz.isoformat()))
                        A(ctx.check, _Date.encode(dtz) == dtz.date().isoformat(), ("C18", "Date.encode", "value"),
                          f"Date.encode({dtz!r}) = {_Date.encode(dtz)!r}, that zone's day is {dtz.date().isoformat()!r}", case)
                        enc = _DateTime.encode(dtz)
                        A(ctx.check, _DateTime.decode(enc) == dtz and _DateTime.decode(enc).utcoffset() == dtz.utcoffset(), ("C18", "DateTime", "roundtrip"),
                          f"DateTime.encode({dtz!r}) = {enc!r} decodes to {_DateTime.decode(enc)!r}", case)
            durs = lattice_durations()
            for td in _mine(ctx, durs):
                ctx.ev(); ctx.count("duration-lattice"); ctx.nontrivial(("dur", td.days, td.seconds))
                A(roundtrip_duration, ctx, td, "lattice")
            if ctx.shard == 0:
                A(roundtrip_bool, ctx)
                ctx.sample({"kind": "duration", "value": repr(durs[3])})
            step = 1 if ctx.thorough else 5
            chan = sorted(set(range(0, 256, step)) | {255, 254, 1, 15, 16, 17, 127, 128})
            n = 0
            for r in chan:
                if r % ctx.nshards != ctx.shard:
                    continue
                for g in chan:
                    for b in chan:
                        n += 1
                        A(roundtrip_color, ctx, (r, g, b), "lattice")
            ctx.ev(n); ctx.count("colour-lattice", n)
            for r in chan:
                if r % ctx.nshards == ctx.shard:
                    ctx.nt.update((1 << 40) | (r << 16) | (g << 8) | b for g in chan for b in chan)
            names = sorted(CSS3_COLORMAP)
            for name in _mine(ctx, names):
                for sp in (name, name.upper(), name.capitalize(), f"  {name}\t"):
                    ctx.ev(); ctx.count("css-name"); ctx.nontrivial(("css", sp))
                    A(check_css, ctx, name, sp)
            for v, u in _mine(ctx, list(lattice_lengths())):
                ctx.ev(); ctx.count("length-lattice"); ctx.nontrivial(("len", str(v), u))
                A(roundtrip_length, ctx, v, u, "lattice")
            # rejection: mutants of valid encodings
            from odfdo.datatype import Duration

            origins = [Duration.encode(td) for td in durs[:: max(1, len(durs) // 40)]]
            origins += ["P1D", "PT1S", "-PT0H0M1S", "P1DT2H3M4S", "PT1M", "P2DT0S"]
            allm = []
            for o in origins:
                allm.extend(("Duration", m, o) for m in mutants(o))
            allm.extend(("Duration", m, "explicit") for m in
                        ["P", "PT", "-P", "-PT", "P1H", "PT1D", "PT-1H", "P-1D", "PT1H ", " PT1H", "PT1.5S", "PT1.S",
                         "P1M", "P1Y", "P1Y2M3D", "PT1H1H", "PT1S1H", "P1DT", "PT\uff11H", "pt1h", "PT1H2", "1H", "T1H",
                         "P1D2H", "PTH", "PT1HM", "+PT1H", "--PT1H", "PT1,5S",
                         "-PT0.5S", "PT0.5S", "-PT00H00M00.250S", "-P0DT0H0M0.000001S", "-PT1.5S", "-P1DT0.25S", "PT0.000001S", "-PT0.000001S",
                         "PT25H", "PT90M", "PT3600S", "-PT36H", "P0D", "PT0S", "-PT0S", "PT0.0S", "PT59.999999S", "-P2DT23H59M59.5S"])
            for o in ("true", "false"):
                allm.extend(("Boolean", m, o) for m in mutants(o) + ["True", "FALSE", "1", "0", "yes"])
            for o in ("#000000", "#FFFFFF", "#12ab9F"):
                allm.extend(("hex2rgb", m, o) for m in mutants(o, ALIEN + ["g", "-", "+", "_"]))
            allm.extend(("Date", m, "explicit") for m in date_wrong_strings())
            allm.extend(("DateTime", m, "explicit") for m in datetime_wrong_strings())
            for kind, m, o in _mine(ctx, allm):
                A(must_reject, ctx, kind, dec[kind][0], m, dec[kind][1], o)
            # Duration: lexical mutants with day/time fields must decode to the model value
            for kind, m, o in _mine(ctx, allm):
                if kind == "Duration" and RE_DURATION.match(m):
                    model = _dur_model(m)
                    case = {"kind": "duration-decode", "value": m}
                    try:
                        got = Duration.decode(m)
                    except Exception:
                        got = "raised"
                    if model is not None:
                        ctx.ev(); ctx.count("duration-lexical-mutant")
                        A(ctx.check, got == model, ("C18", "Duration.decode", "value"),
                          f"decode({m!r}) = {got!r}, xsd value {model!r}", case)
                    else:
                        # Y / month / fraction: not representable -> must raise or be exact
                        ctx.ev(); ctx.count("duration-unrepresentable")
                        frac = re.match(r"(-?)PT(\d+)\.(\d+)S\Z", m, re.ASCII)
                        if got != "raised":
                            okv = False
                            if frac:
                                okv = got == (-1 if frac.group(1) else 1) * timedelta(
                                    seconds=float(f"{frac.group(2)}.{frac.group(3)}"))
                            A(ctx.check, okv, ("C18", "Duration.decode", "wrong-value"),
                              f"decode({m!r}) returned {got!r}", case)
            ctx.extra["exhaustive"] = True
            ctx.extra["exhaustive_bound"] = "all lattices listed in rule; colour step %d" % step
        except Abandon:
            pass

    ctx.engine.add("enumeration")
    ctx.rounds_loop(enumerate_all)

    # ---- H: random values -------------------------------------------------
    n = ctx.budget(16000, 400000)
    tzs = st.one_of(st.none(), st.integers(-14 * 60, 14 * 60).map(lambda m: timezone(timedelta(minutes=m))))

    def mk():
        @given(st.one_of(
            st.dates(date(1, 1, 1), date(9999, 12, 31)).map(lambda d: ("date", d)),
            st.tuples(st.datetimes(datetime(1, 1, 1), datetime(9999, 12, 31, 23, 59, 59, 999999)), tzs).map(
                lambda p: ("datetime", p[0].replace(tzinfo=p[1]))),
            st.integers(-86400 * 366 * 3000, 86400 * 366 * 3000).map(lambda s: ("duration", timedelta(seconds=s))),
            st.tuples(st.integers(0, 255), st.integers(0, 255), st.integers(0, 255)).map(lambda c: ("colour", c)),
            st.tuples(st.decimals(-10**6, 10**6, places=4, allow_nan=False, allow_infinity=False)
                      | st.integers(-10**6, 10**6).map(Decimal), st.sampled_from(UNITS)).map(lambda p: ("length", p)),
        ))
        def t(v):
            kind, val = v
            ctx.ev(); ctx.count("random-" + kind)
            try:
                if kind == "date":
                    roundtrip_date(ctx, val, "random")
                elif kind == "datetime":
                    if val.microsecond or val.tzinfo is not None or val.second in (0, 59):
                        ctx.nontrivial(("dt", val.isoformat()))
                    roundtrip_datetime(ctx, val, "random")
                elif kind == "duration":
                    if val.days < 0 or abs(val.days) > 0:
                        ctx.nontrivial(("dur", val.days, val.seconds))
                    roundtrip_duration(ctx, val, "random")
                elif kind == "colour":
                    roundtrip_color(ctx, val, "random")
                else:
                    value, unit = val
                    if value.as_tuple().exponent < -6 or "E" in str(value):
                        return
                    if value < 0 or value != value.to_integral():
                        ctx.nontrivial(("len", str(value), unit))
                    roundtrip_length(ctx, value, unit, "random")
                ctx.maybe_sample({"kind": kind, "value": repr(val)}, 997)
            except Abandon:
                pass
        return t

    ctx.run_given(mk, n)

    # ---- H: random mutation of encodings (rejection) ------------------------
    from odfdo.datatype import Duration

    def mk2():
        @given(st.integers(-10**9, 10**9), st.lists(st.tuples(st.integers(0, 40), st.sampled_from(
            ["del", "dup", "ins"]), st.sampled_from(list("PTDHMS-+.0123456789 xYW,:") + ["\uff11", "\u0661"])), min_size=1, max_size=3))
        def t(secs, edits):
            s = Duration.encode(timedelta(seconds=secs))
            m = s
            for pos, op, ch in edits:
                pos = pos % (len(m) + 1)
                if op == "del" and m:
                    pos = min(pos, len(m) - 1)
                    m = m[:pos] + m[pos + 1:]
                elif op == "dup" and m:
                    pos = min(pos, len(m) - 1)
                    m = m[:pos] + m[pos] + m[pos:]
                else:
                    m = m[:pos] + ch + m[pos:]
            try:
                if RE_DURATION.match(m):
                    model = _dur_model(m)
                    if model is not None:
                        ctx.ev(); ctx.count("random-duration-lexical")
                        case = {"kind": "duration-decode", "value": m}
                        with ctx.guard(("C18", "Duration.decode", "exception-on-lexical"), case):
                            got = Duration.decode(m)
                            ctx.check(got == model, ("C18", "Duration.decode", "value"),
                                      f"decode({m!r}) = {got!r}, xsd value {model!r}", case)
                    return
                must_reject(ctx, "Duration", Duration.decode, m, RE_DURATION, s)
            except Abandon:
                pass
        return t

    ctx.run_given(mk2, ctx.budget(8000, 200000), salt=1)
    if ctx.thorough:
        _atheris_stage(ctx)


def fuzz_target(ctx):
    """In-target oracle for the atheris campaign (same clauses as the H property)."""
    from odfdo.datatype import Boolean, Duration
    from odfdo.utils.color import hex2rgb

    def target(s):
        if s.startswith("#"):
            must_reject(ctx, "hex2rgb", hex2rgb, s, RE_COLOR, "fuzz")
            return
        if s[:1] in "tf":
            must_reject(ctx, "Boolean", Boolean.decode, s, re.compile(r"(true|false)\Z"), "fuzz")
            return
        if RE_DURATION.match(s):
            model = _dur_model(s)
            if model is not None:
                ctx.nontrivial(("fuzz-lexical", s))
                case = {"kind": "duration-decode", "value": s}
                with ctx.guard(("C18", "Duration.decode", "exception-on-lexical"), case):
                    got = Duration.decode(s)
                    ctx.check(got == model, ("C18", "Duration.decode", "value"), f"decode({s!r}) = {got!r} vs {model!r}", case)
            return
        must_reject(ctx, "Duration", Duration.decode, s, RE_DURATION, "fuzz")

    return target


def _atheris_stage(ctx):
    from lib.fuzz import run_campaign

    def once(_rnd):
        run_campaign(ctx, "props.c18", runs=2_000_000 // ctx.nshards,
                     seeds=["PT1H", "-P1DT2H3M4S", "#A0b1C2", "P", "true"],
                     modules=["odfdo.datatype", "odfdo.utils.color"], max_len=32)

    ctx.rounds_loop(once)
