"""C08 - table getters return correctly addressed, expanded, detached copies."""
from __future__ import annotations

from hypothesis import given, strategies as st

from lib.gridmodel import read_value, same_value
from lib.harness import Abandon
from lib.tablemachine import STYLES, VALUES, Runner, alpha, st_initial

ID = "C08"
RULE = (
    "H: a table from a run-length description (API-built or literal XML, ragged, repeated rows/cells/columns) after 0-3 "
    "cache-warming reads and 0-2 edits; one getter of {Table.get_cell(clone,keep_repeated), get_row, get_cells, get_rows, "
    "traverse, rows, cells, get_column, get_columns, traverse_columns, columns, get_column_cells, Row.get_cell, Row.traverse, "
    "Row.cells, Row.get_cells} with coordinates in/at/beyond the populated area in tuple or string form; oracle: (a) stamped "
    "x/y equal the logical coordinates (and the value/style is the grid model's), (b) expanding getters return repeated is "
    "None, (c) for getters documented as returning copies a generated mutation of one returned object leaves "
    "table.serialize() and every other returned object byte-identical, (d) reads outside the populated area return empty "
    "objects, raise nothing, do not grow the table. Non-trivial = addressed item inside a repeated run or outside the "
    "populated area, with a mutation applied; distinct by (spec, pre-ops, getter, coordinates, mutation)."
    ' Also: filtered getters (get_column_cells / get_cells / get_rows+Row.get_cells with content, cell_type, style filters '
    "incl. patterns matching the empty string: survivors stamped, inside the area, holding the grid's value, in order); Row"
    '.* getters compare the row the cell was read from (copied or stored); generators consumed lazily with a mutation betwe'
    'en two items (traverse, traverse_columns, Row.traverse); value-level getters (get_values, iter_values): shape, None pa'
    "dding clipped to the table, content, and every returned line the caller's own list."
)
ASSUMPTIONS = [
    "detachment (c) is demanded only where the docstring promises a copy: Table.traverse, get_row, get_cell(clone=True), "
    "traverse_columns, get_columns, columns, get_column, Row.traverse, Row.get_cell(clone=True)",
    "get_row/get_column/Row.get_cell/get_cell(keep_repeated=True)/get_column_cells hand out the stored item: their repeat attribute is not judged",
    "get_cell(clone=False) is judged only with keep_repeated=True (with False it is documented to edit the live cell)",
    "lib/gridmodel is the reference for the value found at a coordinate",
]

COPY_DOC = {"traverse", "get_row", "get_cell", "traverse_columns", "get_columns", "columns", "get_column", "Row.traverse",
            "Row.get_cell"}
GETTERS = ["get_cell", "get_cell-keep", "get_cell-noclone", "get_row", "get_cells", "get_cells-flat", "get_rows", "traverse",
           "rows", "cells", "get_column", "get_columns", "traverse_columns", "columns", "get_column_cells", "Row.get_cell",
           "Row.traverse", "Row.traverse-range", "Row.cells", "Row.get_cells", "get_column_cells-filter", "get_cells-filter", "get_rows-filter", "traverse-lazy", "traverse-lazy", "traverse_columns-lazy", "Row.traverse-lazy", "get_values-lines", "get_values-lines", "iter_values-lazy"]
MUTS = ["set_value", "clear", "style", "repeated", "append", "text"]
FILTERS = [{"content": "^$"}, {"content": ".*"}, {"content": "a"}, {"content": "1"}, {"content": "x*"}, {"cell_type": "all"}, {"cell_type": "float"},
           {"cell_type": "string"}, {"style": "ce1"}, {"content": "", "cell_type": "all"}, {"content": "^$", "style": None}]


def ser(o):
    return o.serialize()


def in_run(t, x, y):
    """is logical row y / cell (x,y) stored in a repeated run?"""
    from lib import odfread

    root = odfread.parse_fragment(t.serialize())
    pos = 0
    for r in odfread._iter_rows(root):
        rep = odfread._rep(r, odfread.A_ROWREP)
        if pos <= y < pos + rep:
            if rep > 1:
                return True
            cpos = 0
            for c in r:
                crep = odfread._rep(c, odfread.A_COLREP)
                if cpos <= x < cpos + crep:
                    return crep > 1
                cpos += crep
            return False
        pos += rep
    return False


def mutate(obj, kind, v, n):
    from odfdo import Cell, Column, Row

    if isinstance(obj, Cell):
        if kind == "set_value":
            obj.set_value(VALUES[v] if VALUES[v] is not None else "mut")
        elif kind == "clear":
            obj.clear()
        elif kind == "style":
            obj.style = "mutated"
        elif kind == "repeated":
            obj.repeated = n
        elif kind == "append":
            obj.set_attribute("table:formula", "=1")
        else:
            obj.text = "mut"
    elif isinstance(obj, Row):
        if kind == "set_value":
            obj.set_value(0, "mut")
        elif kind == "clear":
            obj.clear()
        elif kind == "style":
            obj.style = "mutated"
        elif kind == "repeated":
            obj.repeated = n
        elif kind == "append":
            obj.append_cell(Cell("mut"))
        else:
            obj.set_value(obj.width + 1, "far")
    elif isinstance(obj, Column):
        if kind in ("set_value", "style", "text"):
            obj.style = "mutated"
        elif kind == "clear":
            obj.clear()
        elif kind == "repeated":
            obj.repeated = n
        else:
            obj.default_cell_style = "mutated"


def flat(res):
    out = []
    for r in res:
        if isinstance(r, list):
            out.extend(flat(r))
        elif r is not None:
            out.append(r)
    return out


def run_case(case, ctx):
    from odfdo import Cell, Column, Row

    spec, pre, getter = case["spec"], case["pre"], case["getter"]
    x, y, dx, dy, form = case["x"], case["y"], case["dx"], case["dy"], case["form"]
    mut, mv, mn, pick = case["mut"], case["mv"], case["mn"], case["pick"]
    r = Runner(spec, ctx, "C08")
    for op in pre:
        r.apply(op)
    if r.dead:
        return
    t, m = r.t, r.m
    w, h = m.width, m.height
    z, tt = x + dx, y + dy
    xy = f"{alpha(x)}{y + 1}" if form == "s" else (x, y)
    area = f"{alpha(x)}{y + 1}:{alpha(z)}{tt + 1}" if form == "s" else (x, y, z, tt)
    before = ser(t)
    outside = y >= h or x >= w
    inrun = (not outside) and in_run(t, x, y)
    doc_copy = getter.split("-")[0] in COPY_DOC and getter != "get_cell-noclone"
    expect_cells = None  # list of (x, y) for returned cells
    expect_rows = None
    expect_cols = None
    expanded = True
    recv = None
    with ctx.guard(("C08", getter, "exception"), case):
        if getter.startswith("get_cell"):
            # clone=False hands out the live cell: only with keep_repeated=True is it a pure read
            res = [t.get_cell(xy, clone=getter != "get_cell-noclone", keep_repeated=getter != "get_cell")]
            expect_cells = [(x, y)]
            expanded = getter == "get_cell"
        elif getter == "get_row":
            res = [t.get_row(str(y + 1) if form == "s" else y)]
            expect_rows = [y]
            expanded = False
        elif getter in ("get_cells", "get_cells-flat"):
            res = t.get_cells(area, flat=getter.endswith("flat"))
            expect_cells = [(xx, yy) for yy in range(y, min(tt + 1, h)) for xx in range(x, min(z + 1, len(m.rows[yy])))]
        elif getter == "get_rows":
            res = t.get_rows(f"{y + 1}:{tt + 1}" if form == "s" else (y, tt))
            expect_rows = list(range(y, min(tt + 1, h)))
        elif getter == "traverse":
            res = list(t.traverse(start=y, end=tt)) if dx % 2 else list(t.traverse())
            expect_rows = list(range(y, min(tt + 1, h))) if dx % 2 else list(range(h))
        elif getter in ("get_values-lines", "iter_values-lazy"):
            # value-level reads: a list of lines; shape and content per the grid, and each line is the caller's own list
            import copy

            use_area = bool(dy % 2)
            x0, y0, x1, y1 = (x, y, z, tt) if use_area else (0, 0, max(w - 1, 0), max(h - 1, 0))
            kw = {"coord": area} if use_area else {}
            if getter == "get_values-lines":
                lines = t.get_values(**kw)
                snap = copy.deepcopy(lines)
                k = pick % len(lines) if lines else 0
                if lines:
                    lines[k].append("mut")
                    if lines[k]:
                        lines[k][0] = "mut0"
                    ctx.check(all(a == b for i, (a, b) in enumerate(zip(lines, snap)) if i != k), ("C08", getter, "aliases-other-result"),
                              f"editing line {k} of get_values({kw}) in place changed another returned line: {lines!r} (was {snap!r})", case)
            else:
                snap = copy.deepcopy(list(t.iter_values(**kw)))
                k = pick % len(snap) if snap else 0
                lines = []
                for i, line in enumerate(t.iter_values(**kw)):
                    if i == k:
                        line.append("mut")
                        if line:
                            line[0] = "mut0"
                    lines.append(line)
                ctx.check(len(lines) == len(snap) and all(a == b for i, (a, b) in enumerate(zip(lines, snap)) if i != k),
                          ("C08", getter, "aliases-other-result"),
                          f"editing line {k} while iterating iter_values({kw}) changed a later line: {lines!r} (first read {snap!r})", case)
            ctx.check(ser(t) == before, ("C08", getter, "read-changed-table"), "table changed by a value-level read / by editing a returned line", case)
            # shape and content of the first (untouched) read
            rows_want = list(range(y0, min(y1 + 1, h))) if use_area else list(range(h))
            ctx.check(len(snap) == len(rows_want), ("C08", getter, "count"), f"{len(snap)} lines, expected rows {rows_want} ({kw})", case)
            wid = max(0, min(x1, w - 1) - x0 + 1) if use_area else w  # the area is clipped to the table
            for line, yy in zip(snap, rows_want):
                mrow = m.get_row(yy)
                want = [read_value(mrow[xx][0]) if xx < len(mrow) else None for xx in range(x0, x0 + wid)]
                ok = len(line) == len(want) and all(same_value(a, b) for a, b in zip(line, want))
                ctx.check(ok, ("C08", getter, "content"), f"line of row {yy} ({kw}): {line!r}, grid (padded with None to the width) {want!r}", case)
            if snap:
                ctx.nontrivial((spec, pre, getter, x, y, dx, dy, form, pick))
            ctx.count("value-level-lines")
            return
        elif getter in ("traverse-lazy", "traverse_columns-lazy"):
            # the generator consumed one item at a time, an item mutated before the next one is requested
            rowwise = getter == "traverse-lazy"
            if rowwise:
                gen = t.traverse(start=y, end=tt) if dx % 2 else t.traverse()
                expect = list(range(y, min(tt + 1, h))) if dx % 2 else list(range(h))
            else:
                gen = t.traverse_columns(start=x, end=z) if dy % 2 else t.traverse_columns()
                expect = list(range(x, min(z + 1, w))) if dy % 2 else list(range(w))
            k = pick % len(expect) if expect else 0
            got = []
            for i, o in enumerate(gen):
                if i == k:
                    live_known = rowwise and not _row_in_run_xml(before, expect[k]) and ctx.known(("C08", "Table.traverse", "alias-unrepeated-row"))
                    mutate(o, mut, mv, mn)
                    if live_known:
                        ctx.count("excluded-known:traverse-alias")
                    else:
                        sig_ = ("C08", "Table.traverse", "alias-unrepeated-row") if rowwise and not _row_in_run_xml(before, expect[k]) \
                            else ("C08", getter, "not-detached")
                        ctx.check(ser(t) == before, sig_, f"mutating ({mut}) item {i} of the lazy {getter} changed the table", case)
                got.append(o)
            ctx.check(len(got) == len(expect), ("C08", getter, "count"), f"{len(got)} items yielded, expected {expect}", case)
            for i, (o, e_) in enumerate(zip(got, expect)):
                if i == k:
                    continue
                if rowwise:
                    want = [read_value(c[0]) for c in m.get_row(e_)]
                    gv = o.get_values()
                    ok = o.y == e_ and len(gv) == len(want) and all(same_value(a, b) for a, b in zip(gv, want)) and o.repeated is None
                    ctx.check(ok, ("C08", getter, "aliases-other-result"),
                              f"after mutating ({mut}) item {k}, item {i} (row {e_}) reads y={o.y} repeated={o.repeated} {gv!r}, grid {want!r}", case)
                else:
                    ok = o.x == e_ and o.style == (m.cols[e_] if e_ < w else None) and o.repeated is None
                    ctx.check(ok, ("C08", getter, "aliases-other-result"),
                              f"after mutating ({mut}) item {k}, item {i} (column {e_}) reads x={o.x} repeated={o.repeated} style={o.style!r}", case)
            if expect and in_run(t, 0, expect[k]) if rowwise and expect else False:
                ctx.nontrivial((spec, pre, getter, x, y, dx, dy, mut, pick))
            ctx.count("lazy-mutation")
            return
        elif getter == "rows":
            res = t.rows
            expect_rows = list(range(h))
        elif getter == "cells":
            res = t.cells
            expect_cells = [(xx, yy) for yy in range(h) for xx in range(len(m.rows[yy]))]
        elif getter == "get_column":
            res = [t.get_column(alpha(x) if form == "s" else x)]
            expect_cols = [x]
            expanded = False
        elif getter == "get_columns":
            res = t.get_columns(f"{alpha(x)}:{alpha(z)}" if form == "s" else (x, z))
            expect_cols = list(range(x, min(z + 1, w)))
        elif getter == "traverse_columns":
            res = list(t.traverse_columns(start=x, end=z)) if dy % 2 else list(t.traverse_columns())
            expect_cols = list(range(x, min(z + 1, w))) if dy % 2 else list(range(w))
        elif getter == "columns":
            res = t.columns
            expect_cols = list(range(w))
        elif getter == "get_column_cells":
            res = t.get_column_cells(alpha(x) if form == "s" else x)
            expect_cells = [(x, yy) for yy in range(h)]
            expanded = False  # row repeats are expanded; the cells keep their own (horizontal) count like get_cell()
        elif getter.endswith("-filter"):
            # filtered reads: which cells survive is the filter's business; every survivor must be stamped with the
            # coordinates it came from, hold what the grid holds there, and appear in coordinate order
            flt = FILTERS[case.get("flt", 0) % len(FILTERS)]
            if getter == "get_column_cells-filter":
                res = t.get_column_cells(alpha(x) if form == "s" else x, **flt)
                allowed = [(x, yy) for yy in range(h)]
                expanded = False
            elif getter == "get_cells-filter":
                res = t.get_cells(area, flat=True, **flt)
                allowed = [(xx, yy) for yy in range(y, min(tt + 1, h)) for xx in range(x, z + 1)]
            else:
                res = flat([r.get_cells(**flt) for r in t.get_rows((y, tt), **{k: v for k, v in flt.items() if k != "cell_type"})])
                allowed = [(xx, yy) for yy in range(y, min(tt + 1, h)) for xx in range(0, max(w, 1) + 12)]
            objs = flat(res)
            stamps = []
            for o in objs:
                ctx.check(isinstance(o, Cell) and o.x is not None and o.y is not None, ("C08", getter, "xy-stamp"),
                          f"{getter}({flt}) returned a cell stamped ({getattr(o, 'x', None)},{getattr(o, 'y', None)})", case)
                ctx.check((o.x, o.y) in allowed, ("C08", getter, "xy-stamp"),
                          f"{getter}({flt}) returned a cell stamped ({o.x},{o.y}) outside the requested area", case)
                mv_, ms_ = m.cell(o.x, o.y)
                ctx.check(same_value(o.get_value(), read_value(mv_)) and o.style == ms_, ("C08", getter, "content"),
                          f"{getter}({flt}): cell stamped ({o.x},{o.y}) holds ({o.get_value()!r},{o.style!r}), grid ({mv_!r},{ms_!r})", case)
                stamps.append((o.y, o.x))
            ctx.check(stamps == sorted(set(stamps)), ("C08", getter, "order"), f"{getter}({flt}) survivors out of order or duplicated: {stamps}", case)
            ctx.check(ser(t) == before, ("C08", getter, "read-changed-table"), "table serialisation changed by a read", case)
            if objs:
                ctx.nontrivial((spec, pre, getter, x, y, dx, dy, form, case.get("flt", 0)))
            ctx.count("filtered-survivors:" + ("some" if objs else "none"))
            return
        else:  # Row.*
            # the receiver is a copy of the row or (live) the stored row itself
            row = t.get_row(y, clone=False) if case.get("live") else t.get_row(y)
            recv = row
            mrow = m.get_row(y)
            if getter == "Row.get_cell":
                res = [row.get_cell(alpha(x) if form == "s" else x)]
                expect_cells = [(x, y)]
                expanded = False
            elif getter == "Row.traverse":
                res = list(row.traverse())
                expect_cells = [(xx, y) for xx in range(len(mrow))]
            elif getter == "Row.traverse-range":
                res = list(row.traverse(start=x, end=z))
                expect_cells = [(xx, y) for xx in range(x, min(z + 1, len(mrow)))]
            elif getter == "Row.traverse-lazy":
                gen = row.traverse(start=x, end=z) if dy % 2 else row.traverse()
                expect = [xx for xx in (range(x, min(z + 1, len(mrow))) if dy % 2 else range(len(mrow)))]
                k = pick % len(expect) if expect else 0
                got = []
                row_before = ser(row)
                for i, o in enumerate(gen):
                    if i == k:
                        mutate(o, mut, mv, mn)
                        ctx.check(ser(t) == before and ser(row) == row_before, ("C08", getter, "not-detached"),
                                  f"mutating ({mut}) item {i} of the lazy Row.traverse changed the row or the table", case)
                    got.append(o)
                ctx.check(len(got) == len(expect), ("C08", getter, "count"), f"{len(got)} cells yielded, expected {expect}", case)
                for i, (o, e_) in enumerate(zip(got, expect)):
                    if i == k:
                        continue
                    mv_, ms_ = mrow[e_]
                    ok = (o.x, o.y) == (e_, y) and same_value(o.get_value(), read_value(mv_)) and o.style == ms_ and o.repeated is None
                    ctx.check(ok, ("C08", getter, "aliases-other-result"),
                              f"after mutating ({mut}) item {k}, item {i} (cell {e_}) reads ({o.x},{o.y}) repeated={o.repeated} "
                              f"({o.get_value()!r},{o.style!r}), grid ({mv_!r},{ms_!r})", case)
                ctx.count("lazy-mutation")
                if expect:
                    ctx.nontrivial((spec, pre, getter, x, y, dx, dy, mut, pick))
                return
            elif getter == "Row.cells":
                res = row.cells
                expect_cells = [(xx, y) for xx in range(len(mrow))]
            else:
                res = row.get_cells(f"{alpha(x)}:{alpha(z)}" if form == "s" else (x, z))
                expect_cells = [(xx, y) for xx in range(x, min(z + 1, len(mrow)))]
        objs = flat(res)
        # (d) no growth, nothing raised
        ctx.check(ser(t) == before, ("C08", getter, "read-changed-table"), "table serialisation changed by a read", case)
        # (a) stamps + content
        if expect_cells is not None:
            ctx.check(all(isinstance(o, Cell) for o in objs) and len(objs) == len(expect_cells), ("C08", getter, "count"),
                      f"{len(objs)} cells returned, {len(expect_cells)} expected {expect_cells[:6]}", case)
            for o, (ex, ey) in zip(objs, expect_cells):
                ctx.check((o.x, o.y) == (ex, ey), ("C08", getter, "xy-stamp"),
                          f"cell read at ({ex},{ey}) is stamped ({o.x},{o.y})", case)
                mv_, ms_ = m.cell(ex, ey)
                ctx.check(same_value(o.get_value(), read_value(mv_)) and o.style == ms_, ("C08", getter, "content"),
                          f"cell read at ({ex},{ey}) holds ({o.get_value()!r},{o.style!r}), grid ({mv_!r},{ms_!r})", case)
                if outside and (ex >= w or ey >= h):
                    ctx.check(o.get_value() is None and o.style is None and not o.children, ("C08", getter, "outside-not-empty"),
                              f"read outside the table returned {ser(o)}", case)
        if expect_rows is not None:
            ctx.check(all(isinstance(o, Row) for o in objs) and len(objs) == len(expect_rows), ("C08", getter, "count"),
                      f"{len(objs)} rows returned, expected rows {expect_rows}", case)
            for o, ey in zip(objs, expect_rows):
                ctx.check(o.y == ey, ("C08", getter, "y-stamp"), f"row read at {ey} is stamped y={o.y}", case)
                want = [read_value(c[0]) for c in m.get_row(ey)]
                got = o.get_values()
                ctx.check(len(got) == len(want) and all(same_value(a, b) for a, b in zip(got, want)), ("C08", getter, "content"),
                          f"row read at {ey} holds {got!r}, grid {want!r}", case)
                if ey >= h:
                    ctx.check(o.width == 0 and not o.children, ("C08", getter, "outside-not-empty"),
                              f"row read outside the table: {ser(o)}", case)
        if expect_cols is not None:
            ctx.check(all(isinstance(o, Column) for o in objs) and len(objs) == len(expect_cols), ("C08", getter, "count"),
                      f"{len(objs)} columns returned, expected columns {expect_cols}", case)
            for o, ex in zip(objs, expect_cols):
                ctx.check(o.x == ex, ("C08", getter, "x-stamp"), f"column read at {ex} is stamped x={o.x}", case)
                want = m.cols[ex] if ex < w else None
                ctx.check(o.style == want, ("C08", getter, "content"), f"column {ex} style {o.style!r}, grid {want!r}", case)
        # (b) expansion
        if expanded:
            for o in objs:
                ctx.check(o.repeated is None, ("C08", getter, "repeat-count-kept"),
                          f"object stamped x={getattr(o, 'x', None)} y={getattr(o, 'y', None)} carries repeated={o.repeated}", case)
        # (c) detachment
        if objs and doc_copy:
            k = pick % len(objs)
            target = objs[k]
            others = [ser(o) for i, o in enumerate(objs) if i != k]
            recv_before = ser(recv) if recv is not None else None
            unrepeated_row = isinstance(target, Row) and getter == "traverse"
            skip = unrepeated_row and not _row_in_run(t, target.y) and ctx.known(("C08", "Table.traverse", "alias-unrepeated-row"))
            mutate(target, mut, mv, mn)
            if outside or inrun:
                ctx.nontrivial((spec, pre, getter, x, y, dx, dy, form, mut, pick))
            ctx.count("mutated:" + type(target).__name__)
            if skip:
                ctx.count("excluded-known:traverse-alias")
            else:
                sig = ("C08", "Table.traverse", "alias-unrepeated-row") if unrepeated_row and not _row_in_run_xml(before, target.y) \
                    else ("C08", getter, "not-detached")
                ctx.check(ser(t) == before, sig,
                          f"mutating ({mut}) the object returned by {getter} changed the table", case)
                if recv is not None:
                    ctx.check(ser(recv) == recv_before, ("C08", getter, "not-detached-from-row"),
                              f"mutating ({mut}) the cell returned by {getter} changed the row it was read from", case)
                now = [ser(o) for i, o in enumerate(objs) if i != k]
                ctx.check(now == others, ("C08", getter, "aliases-other-result"),
                          f"mutating ({mut}) one returned object changed another returned object", case)
        elif outside or inrun:
            ctx.count("nontrivial-read-only")


def _row_in_run_xml(xml, y):
    from lib import odfread

    root = odfread.parse_fragment(xml)
    pos = 0
    for r in odfread._iter_rows(root):
        rep = odfread._rep(r, odfread.A_ROWREP)
        if pos <= y < pos + rep:
            return rep > 1
        pos += rep
    return False


def _row_in_run(t, y):
    return _row_in_run_xml(t.serialize(), y)


def replay(case, ctx):
    try:
        run_case(case, ctx)
    except Abandon:
        pass


def run_shard(ctx):
    vi = st.integers(0, len(VALUES) - 1)
    si = st.integers(0, len(STYLES) - 1)
    k = st.integers(0, 12)
    pre_op = st.one_of(
        st.fixed_dictionaries({"op": st.just("warm"), "k": st.sampled_from(
            ["get_row", "get_row_noclone", "get_cell", "get_value", "traverse", "get_column", "rows", "cells", "get_values"]),
            "kx": k, "ky": k}),
        st.fixed_dictionaries({"op": st.just("set_value"), "x": st.integers(0, 6), "y": st.integers(0, 6), "v": vi, "s": si,
                               "form": st.just("t")}),
        st.fixed_dictionaries({"op": st.just("insert_column"), "x": st.integers(0, 5), "r": st.integers(1, 2), "cs": st.just(0),
                               "form": st.just("t")}),
        st.fixed_dictionaries({"op": st.just("delete_row"), "y": st.integers(0, 5), "form": st.just("t")}),
        st.fixed_dictionaries({"op": st.just("transpose")}),
        st.fixed_dictionaries({"op": st.just("strip"), "k": st.sampled_from(["rstrip", "optimize_width"]), "aggr": st.booleans()}),
        # a cached read of the first row right after such a whole-table operation
        st.fixed_dictionaries({"op": st.just("warm"), "k": st.sampled_from(["get_row", "get_cell", "get_value", "get_row_noclone"]), "kx": k, "ky": st.just(0)}),
    )
    cases = st.fixed_dictionaries({
        "spec": st_initial(()), "pre": st.lists(pre_op, max_size=4), "getter": st.sampled_from(GETTERS),
        "x": st.integers(0, 8), "y": st.integers(0, 8), "dx": st.integers(0, 4), "dy": st.integers(0, 4),
        "form": st.sampled_from(["t", "s"]), "mut": st.sampled_from(MUTS), "mv": vi, "mn": st.integers(2, 4),
        "pick": st.integers(0, 30), "live": st.booleans(), "flt": st.integers(0, 10),
    })

    def mk():
        @given(cases)
        def t(case):
            ctx.ev()
            ctx.count("getter:" + case["getter"])
            try:
                run_case(case, ctx)
                ctx.maybe_sample(case, 401)
            except Abandon:
                pass
        return t

    ctx.run_given(mk, ctx.budget(64000, 600000))
