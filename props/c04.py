"""C04 - every saved file is a valid ODF package whose manifest matches its content."""
from lib.docmachine import make_doc_machine, run_doc_history
from lib.harness import Abandon

ID = "C04"
RULE = (
    "Hypothesis rule-based state machine over documents (4 templates; every sample opened by path, BytesIO or folder): rules = "
    "body edits, insert_style, meta, add_file(path|BytesIO) with few distinct contents so that the same file is added twice, "
    "image frames, del_part of non-mandatory parts, set_part of existing parts, merge_styles_from(another sample), clone "
    "(history continues on the clone), save to zip (path|BytesIO) and reopen. Oracle on each saved zip, read with zipfile and an "
    "independent manifest parser: first entry is 'mimetype', ZIP_STORED, no extra field, equal to the document mimetype and to "
    "the manifest root media type; no duplicate entry names; manifest full-paths pairwise distinct; every file except mimetype "
    "and META-INF/* listed exactly once; every listed file exists; a listed directory has a file below it. Inconsistencies "
    "already present in the source package are recorded as baseline and exempt. Evaluations = machine steps. Non-trivial "
    "history = repeated add_file of equal content, a del_part, a merge or a clone before the save; distinct by (source, ops)."
    ' Also: merge sources whose styles reference pictures (two samples, synthetic fill-image documents sharing the add_file'
    ' contents), del_part aimed at added pictures, Document.new(<sample as template>), folder packaging and saves in place '
    'inside the history, composite rules inplace_cycle and readd_after_delete (add, delete, same name back through merge or'
    ' add, save), sources with repeated directory entries.'
)
ASSUMPTIONS = [
    "zipfile reports entry order, compression and extra fields faithfully",
    "odfdo is not claimed to repair inconsistencies of its input: problems present in the source package are exempt",
    "set_part is the low-level part setter: it is only used on parts the manifest already knows",
]


def run_shard(ctx):
    M = make_doc_machine(ctx, "C04")
    ctx.run_machine(M, ctx.budget(16 * 130, 16 * 1500), 12 if not ctx.thorough else 20, replay=replay_raise)


def replay_raise(case, ctx):
    run_doc_history(case["source"], case["ops"], "C04", ctx)


def replay(case, ctx):
    try:
        replay_raise(case, ctx)
    except Abandon:
        pass
