"""C07 - table XML stays structurally valid and repeat-consistent after every
operation; table names / named-range names accepted are exactly the documented ones."""
import string

from hypothesis import given, strategies as st

from lib import corpus
from lib.harness import Abandon
from lib.tablemachine import make_machine, run_history

ID = "C07"
RULE = (
    "(S) the C01 state machine; after every step the serialised table:table is linted with lxml: every number-*-repeated "
    "absent or an integer >= 2, rows contain only (covered-)table-cell, all column declarations precede the first row, no row "
    "wider than the declared columns, reported size == sums of repeats, a table that received a row through the API declares "
    ">= 1 column. (H) names: strings over an alphabet with []*?:/\\ ' blanks quotes &< non-ASCII; Table(name)/table.name= must "
    "raise exactly for non-str, empty after strip, a forbidden character, apostrophe first/last, else store the stripped name; "
    "NamedRange names per docstring. Evaluations = machine steps + name cases. Non-trivial = history in which a run was split "
    "or merged (XML item count changed) or a name with a special character; distinct by (initial, ops) / name."
    ' Histories include strip_cycle, live_row, kept Row objects and office-shaped initial tables. Named-range names: constr'
    "uctor, name setter and Table.set_named_range; letters of other scripts + ASCII digits + '_' (letter/'_' first) must be"
    ' accepted (column letters are A-Z only).'
)
ASSUMPTIONS = [
    "lxml parses the serialisation; the lint rules are the ones stated in the property",
    "names containing control characters (newline...) are outside the documented rule: either outcome accepted",
    "NamedRange names: only the documented classes are judged (ASCII punctuation/blank rejected, [A-Za-z]+[0-9]+ rejected, "
    "[A-Za-z_][A-Za-z0-9_]* otherwise accepted; a name with non-ASCII letters made of letters, ASCII digits and '_' with a "
    "letter or '_' first is accepted - column letters are A-Z only, so 'é1' is no cell reference); for digit-first names and "
    "non-ASCII digits/punctuation only 'ValueError or accepted'",
]

FORBIDDEN = set("[]*?:/\\")
NAME_ALPHA = list("ab Z9_.-[]*?:/\\'\"&<>é中 ") + ["\t", "'", "'"]


def table_name_expect(name):
    """-> 'type' | 'value' | stored name | None (unspecified)"""
    if not isinstance(name, str):
        return "type"
    s = name.strip()
    if any(ord(c) < 32 for c in s):
        return None
    if not s:
        return "value"
    if any(c in FORBIDDEN for c in s) or s[0] == "'" or s[-1] == "'":
        return "value"
    return ("ok", s)


def check_table_name(ctx, name, via):
    from odfdo import Table

    case = {"kind": "table-name", "name": name, "via": via}
    exp = table_name_expect(name)
    ctx.ev()
    if isinstance(name, str) and (set(name) & (FORBIDDEN | set("'\"&< "))):
        ctx.nontrivial(("tn", name, via))
    try:
        if via == "ctor":
            t = Table(name)
        else:
            t = Table("seed")
            t.name = name
        got = ("ok", t.name)
        xml = t.serialize()
    except TypeError:
        got = "type"
    except ValueError:
        got = "value"
    except Exception as e:  # any other exception is not a clean rejection
        ctx.fail(("C07", "table-name", "exception", type(e).__name__), f"{name!r}: {e!r}", case)
        return
    if exp is None:
        ctx.count("name-unspecified")
        return
    if exp == "type":
        # None is documented as "required": TypeError or ValueError both reject
        ctx.check(got in ("type", "value"), ("C07", "table-name", "non-str-accepted"), f"{name!r} -> {got!r}", case)
        return
    ctx.check(got == exp, ("C07", "table-name", "accept-reject"), f"Table name {name!r} via {via}: expected {exp!r}, got {got!r}", case)
    if got != "value" and got != "type":
        from lib import odfread

        root = odfread.parse_fragment(xml)
        ctx.check(root.get(odfread.q("table:name")) == exp[1], ("C07", "table-name", "stored"),
                  f"{name!r} stored as {root.get(odfread.q('table:name'))!r}", case)


def named_range_expect(name):
    if not isinstance(name, str):
        return None
    s = name.strip()
    if not s:
        return "value"
    ascii_bad = set(string.printable) - set(string.ascii_letters) - set(string.digits) - {"_"}
    if any(c in ascii_bad for c in s):
        return "value"
    if all(ord(c) < 128 for c in s):
        import re

        if re.fullmatch(r"[A-Za-z]+[0-9]+", s):
            return "value"
        if re.fullmatch(r"[A-Za-z_][A-Za-z0-9_]*", s):
            return ("ok", s)
        return None
    # letters of other scripts are letters for office applications too, and never part of a cell reference (column letters
    # are A-Z only): letter/underscore first, then letters, ASCII digits and underscores
    if (s[0].isalpha() or s[0] == "_") and all(c.isalpha() or c in string.digits or c == "_" for c in s):
        return ("ok", s)
    return None


def check_named_range_name(ctx, name):
    from odfdo.table import NamedRange

    case = {"kind": "named-range-name", "name": name}
    exp = named_range_expect(name)
    ctx.ev()
    ctx.nontrivial(("nr", name))
    via = len(name) % 3 if isinstance(name, str) else 0
    try:
        if via == 0:
            nr = NamedRange(name, "A1:B2", "T")
        elif via == 1:
            nr = NamedRange("seed_name", "A1:B2", "T")
            nr.name = name
        else:
            from odfdo import Document, Table

            doc = Document("spreadsheet")
            doc.body.clear()
            tb = Table("T", width=2, height=2)
            doc.body.append(tb)
            tb.set_named_range(name, "A1:B2")
            nr = tb.get_named_ranges()[0]
        got = ("ok", nr.name)
    except ValueError:
        got = "value"
    except Exception as e:
        ctx.fail(("C07", "named-range-name", "exception", type(e).__name__), f"{name!r}: {e!r}", case)
        return
    if exp is None:
        ctx.count("nr-name-unspecified")
        return
    ctx.check(got == exp, ("C07", "named-range-name", "accept-reject"), f"NamedRange name {name!r}: expected {exp!r}, got {got!r}", case)


def run_shard(ctx):
    M = make_machine(ctx, "C07", corpus.table_specs())
    ctx.run_machine(M, ctx.budget(16 * 320, 16 * 1500), 25 if not ctx.thorough else 50, replay=replay_raise)

    names = st.one_of(
        st.text(alphabet=st.sampled_from(NAME_ALPHA), max_size=8),
        st.text(alphabet=st.sampled_from(NAME_ALPHA), min_size=1, max_size=4).map(lambda s: "'" + s),
        st.text(alphabet=st.sampled_from(NAME_ALPHA), min_size=1, max_size=4).map(lambda s: s + "'"),
        st.text(alphabet=st.sampled_from(NAME_ALPHA), min_size=1, max_size=4).map(lambda s: " " + s + " "),
        st.text(max_size=6),
        st.sampled_from([None, 3, b"x", ""]),
    )

    def mk():
        @given(names, st.sampled_from(["ctor", "setter"]))
        def t(name, via):
            try:
                check_table_name(ctx, name, via)
                ctx.maybe_sample({"kind": "table-name", "name": name, "via": via}, 501)
            except Abandon:
                pass
        return t

    ctx.run_given(mk, ctx.budget(6000, 200000), salt=3)

    nr_alpha = list("abAZ09_ -.'!$") + ["é", "٣"]
    nr_names = st.one_of(
        st.text(alphabet=st.sampled_from(nr_alpha), max_size=6),
        st.from_regex(r"[A-Za-z]{1,3}[0-9]{1,3}", fullmatch=True),
        st.from_regex(r"[A-Za-z_][A-Za-z0-9_]{0,5}", fullmatch=True),
        st.from_regex(r"[A-Za-z]{1,2}[0-9]{1,2}[A-Za-z_]", fullmatch=True),
        st.from_regex(r"[a-zéßü中д]{1,4}[0-9]{1,4}", fullmatch=True),
        st.from_regex(r"[a-zA-Zéß中_][a-zA-Z0-9éß中_]{0,5}", fullmatch=True),
        st.sampled_from(["é1", "données2024", "größe1", "Straße12", "中1", "aé1", "é_1", "A1", "ab12", "XFD1", "x٣"]),
    )

    def mk2():
        @given(nr_names)
        def t(name):
            try:
                check_named_range_name(ctx, name)
            except Abandon:
                pass
        return t

    ctx.run_given(mk2, ctx.budget(4000, 100000), salt=4)


def replay_raise(case, ctx):
    if case.get("kind") == "table-name":
        check_table_name(ctx, case["name"], case["via"])
    elif case.get("kind") == "named-range-name":
        check_named_range_name(ctx, case["name"])
    else:
        run_history(case["initial"], case["ops"], "C07", ctx)


def replay(case, ctx):
    try:
        replay_raise(case, ctx)
    except Abandon:
        pass
