"""C15 - reading, searching and exporting a document never changes it."""
from __future__ import annotations

import io

from hypothesis import given, strategies as st

from lib import corpus, odfread
from lib.harness import Abandon

ID = "C15"
RULE = (
    "H over programs: a document (4 templates, every sample of the corpus - tables bounded, files > 60 kB in thorough only - "
    "and generated text/spreadsheet documents with tables holding trailing empty/repeated cells, notes, a TOC, lists, frames) x a "
    "random sequence (<= 12, any order) of entries from an explicit table of read-only entry points of Document, Meta, Body/"
    "Element, Table, Row, TOC, List, Frame and the export mixins (text, RST, Markdown, CSV, str(), style listings, metadata "
    "export, searches, replace() without replacement, serialize(pretty), clone, getters). Oracle: snapshot = serialisation of "
    "content/styles/meta/settings/manifest + bytes of every other part, byte-identical before and after each call (also when "
    "the call raises); calling the same entry twice returns equal answers. A discovery pass lists public get_/is_/to_/as_/search "
    "methods not classified in the table (reported in the evidence). Non-trivial = document holding a table with trailing empty "
    "or repeated cells, or notes/TOC; distinct by (document, program)."
    ' Also: coordinate-parametrised table/row reads (inside, last, edge, beyond, negative), get_part with every spelling of'
    ' the XML part names and for sub-documents, generated documents with empty / trailing-empty tables in frames, headings,'
    ' cells and sections, surplus column declarations, notes without citation; programs biased to whole-document exports.'
)
ASSUMPTIONS = [
    "get_variable_decls / get_user_field_decls are documented to create their container and are excluded",
    "lazy parsing of a part is not a change: the snapshot is taken through the same accessors before and after",
    "an entry point may raise on documents it does not support (e.g. Markdown export of a drawing); purity is still demanded",
]


CREATING = {"get_variable_decls", "get_user_field_decls", "get_meta_body"}


def stable(x):
    """comparable rendering of a returned value"""
    from odfdo import Element

    if isinstance(x, Element):
        return ("E", x.serialize())
    if isinstance(x, (list, tuple)):
        return [stable(i) for i in x]
    if isinstance(x, dict):
        return {str(k): stable(v) for k, v in x.items()}
    if hasattr(x, "__next__") or hasattr(x, "send"):
        return [stable(i) for i in x]
    if isinstance(x, (str, bytes, int, float, bool)) or x is None:
        return x
    if hasattr(x, "serialize"):
        try:
            return ("S", x.serialize())
        except Exception:
            pass
    return repr(type(x))


def first(getter):
    def f(d):
        items = getter(d)
        return items[0] if items else None
    return f


def _tables(d):
    return [t for t in d.body.get_tables() if t.height * max(t.width, 1) <= 4000]


def with_table(fn):
    def f(d, i=0):
        ts = _tables(d)
        if not ts:
            return None
        return fn(ts[i % len(ts)])
    return f


def with_row(fn):
    def f(d, i=0):
        ts = [t for t in _tables(d) if t.height]
        if not ts:
            return None
        t = ts[i % len(ts)]
        return fn(t.get_row(i % t.height, clone=False))
    return f


def with_each(xpath, fn):
    def f(d, i=0):
        els = d.body.get_elements(xpath)
        if not els:
            return None
        return fn(els[i % len(els)])
    return f


def entries():
    E = {}
    # ---- Document -----------------------------------------------------------
    E["doc.get_formatted_text"] = lambda d, i=0: d.get_formatted_text()
    E["doc.get_formatted_text(rst)"] = lambda d, i=0: d.get_formatted_text(rst_mode=True)
    E["str(doc)"] = lambda d, i=0: str(d)
    E["doc.to_markdown"] = lambda d, i=0: d.to_markdown()
    E["doc.get_styles"] = lambda d, i=0: d.get_styles()
    E["doc.get_styles(paragraph)"] = lambda d, i=0: d.get_styles("paragraph")
    E["doc.show_styles"] = lambda d, i=0: d.show_styles()
    E["doc.show_styles(auto)"] = lambda d, i=0: d.show_styles(automatic=True, common=False)
    E["doc.get_style"] = lambda d, i=0: d.get_style("paragraph")
    E["doc.get_style(named)"] = lambda d, i=0: d.get_style("paragraph", "Standard")
    E["doc.get_styled_elements"] = lambda d, i=0: d.get_styled_elements()
    E["doc.get_formated_meta"] = lambda d, i=0: d.get_formated_meta()
    E["doc.get_parts"] = lambda d, i=0: sorted(d.get_parts())
    E["doc.get_part(binary)"] = lambda d, i=0: [d.get_part(n) for n in sorted(d.get_parts()) if n.startswith(("Pictures/", "Thumbnails/"))][:2]
    E["doc.get_part(xml spellings)"] = lambda d, i=0: [len(d.get_part(n).serialize()) for n in
                                                        ("./content.xml", "content.xml", "content", "./styles.xml", "styles", "./meta.xml", "meta.xml",
                                                         "./settings.xml", "settings", "./META-INF/manifest.xml", "manifest")[i % 4::4]]
    E["doc.get_part(sub-documents)"] = lambda d, i=0: [len(d.get_part(n).serialize()) for n in sorted(d.get_parts())
                                                        if n.count("/") == 1 and n.endswith((".xml",)) and not n.startswith("META-INF")][:4]
    E["doc.get_style_properties"] = lambda d, i=0: (d.get_style_properties("paragraph", "Standard"), d.get_style_properties("paragraph", "Standard", "text"))
    E["doc.get_type"] = lambda d, i=0: (d.get_type(), d.mimetype)
    E["doc.get_table_displayed"] = lambda d, i=0: [d.get_table_displayed(t.name) for t in d.body.get_tables()[:2]] if d.get_type() == "spreadsheet" else None
    E["doc.get_cell_style_properties"] = lambda d, i=0: d.get_cell_style_properties(0, (0, 0)) if d.body.get_tables() else None
    E["doc.get_table_style"] = lambda d, i=0: d.get_table_style(0) if d.body.get_tables() else None
    E["doc.clone"] = lambda d, i=0: d.clone.body
    # ---- Meta ----------------------------------------------------------------------
    E["meta.as_dict"] = lambda d, i=0: d.meta.as_dict()
    E["meta.as_dict(full)"] = lambda d, i=0: d.meta.as_dict(full=True)
    E["meta.as_json"] = lambda d, i=0: d.meta.as_json()
    E["meta.as_text"] = lambda d, i=0: d.meta.as_text()
    E["meta.getters"] = lambda d, i=0: (d.meta.get_title(), d.meta.get_description(), d.meta.get_subject(), d.meta.get_language(),
                                        d.meta.get_creation_date(), d.meta.get_initial_creator(), d.meta.get_keywords(),
                                        d.meta.get_editing_duration(), d.meta.get_editing_cycles(), d.meta.get_generator())
    E["meta.get_statistic"] = lambda d, i=0: d.meta.get_statistic()
    E["meta.user_defined"] = lambda d, i=0: d.meta.get_user_defined_metadata()
    E["meta.user_defined_of_name"] = lambda d, i=0: d.meta.get_user_defined_metadata_of_name("k")
    E["meta.serialize"] = lambda d, i=0: d.meta.serialize()
    # ---- Body / Element ---------------------------------------------------------------
    for name in ("get_paragraphs", "get_headers", "get_tables", "get_images", "get_frames", "get_notes", "get_links", "get_lists",
                 "get_sections", "get_spans", "get_bookmarks", "get_annotations", "get_draw_pages", "get_tocs", "get_variable_sets",
                 "get_reference_marks", "get_references", "get_tracked_changes", "get_text_changes", "get_user_defined_list",
                 "get_draw_groups", "get_draw_lines", "get_draw_rectangles", "get_draw_ellipses", "get_draw_connectors",
                 "get_named_ranges", "get_bookmark_starts", "get_bookmark_ends", "get_annotation_ends", "get_office_names",
                 "get_user_field_gets", "get_user_field_inputs", "get_changes_ids", "get_orphan_draw_connectors"):
        E["body." + name] = (lambda n: (lambda d, i=0: getattr(d.body, n)() if hasattr(d.body, n) else None))(name)
    E["body.get_paragraph(content)"] = lambda d, i=0: d.body.get_paragraph(content="a")
    E["body.get_header(position)"] = lambda d, i=0: d.body.get_header(position=0)
    E["body.get_table(position)"] = lambda d, i=0: d.body.get_table(position=0)
    E["body.get_frame(position)"] = lambda d, i=0: d.body.get_frame(position=0)
    E["body.get_note"] = lambda d, i=0: d.body.get_note(position=0)
    E["body.get_link"] = lambda d, i=0: d.body.get_link(position=0)
    E["body.get_paragraphs(style)"] = lambda d, i=0: d.body.get_paragraphs(style="Standard")
    E["body.search"] = lambda d, i=0: (d.body.search("a"), d.body.search_first("e"), d.body.search_all("[ae]")[:20], d.body.match("zzzz"))
    E["body.text_at"] = lambda d, i=0: d.body.text_at(0, 20)
    E["body.replace(count)"] = lambda d, i=0: d.body.replace("a")
    E["body.replace(count,regex)"] = lambda d, i=0: d.body.replace(r"\w+")
    E["body.replace(count,formatted)"] = lambda d, i=0: d.body.replace(r"[a-z]+", formatted=True)
    E["body.replace(count,None,formatted)"] = lambda d, i=0: d.body.replace(" ", None, True)
    E["paragraph.replace(count,formatted)"] = with_each("descendant::text:p|descendant::text:h", lambda p: p.replace(r"\w", formatted=True))
    E["span.replace(count,formatted)"] = with_each("descendant::text:span", lambda p: p.replace(r".", formatted=True))
    E["body.serialize"] = lambda d, i=0: d.body.serialize()
    E["body.serialize(pretty)"] = lambda d, i=0: d.body.serialize(pretty=True)
    E["body.serialize(with_ns)"] = lambda d, i=0: len(d.body.serialize(with_ns=True))
    E["body.clone"] = lambda d, i=0: d.body.clone
    E["body.inner_text"] = lambda d, i=0: (d.body.inner_text, d.body.text_recursive, d.body.text_content)
    E["body.get_formatted_text"] = lambda d, i=0: d.body.get_formatted_text()
    E["body.children"] = lambda d, i=0: (len(d.body.children), d.body.tag, d.body.attributes, d.body.is_empty())
    E["body.get_elements"] = lambda d, i=0: len(d.body.get_elements("descendant::text:p"))
    E["body.xpath"] = lambda d, i=0: len(d.body.xpath("descendant::text()"))
    E["body.get_between"] = lambda d, i=0: None
    E["body.get_styled_elements"] = lambda d, i=0: d.body.get_styled_elements()
    # every remaining getter callable without argument (signature inspected at run time, so new ones are picked up);
    # the two getters documented as "created if not found" are excluded
    def generic(target_of):
        import inspect

        def f(d, i=0):
            obj = target_of(d)
            out = []
            for n, m in inspect.getmembers(type(obj), predicate=inspect.isfunction):
                if not n.startswith(("get_", "is_", "as_")) or n in CREATING:
                    continue
                params = list(inspect.signature(m).parameters.values())[1:]
                if any(p.default is inspect.Parameter.empty and p.kind in (p.POSITIONAL_ONLY, p.POSITIONAL_OR_KEYWORD) for p in params):
                    continue
                try:
                    out.append((n, stable(getattr(obj, n)())))
                except Exception as e:
                    out.append((n, "raised " + type(e).__name__))
            return out
        return f

    E["body.all-argless-getters"] = generic(lambda d: d.body)
    E["meta.all-argless-getters"] = generic(lambda d: d.meta)
    E["doc.all-argless-getters"] = generic(lambda d: d)
    E["content.get_styles"] = lambda d, i=0: d.content.get_styles()
    E["styles.get_styles"] = lambda d, i=0: (d.styles.get_styles(), d.styles.get_master_pages())
    E["manifest.reads"] = lambda d, i=0: (d.manifest.get_paths(), d.manifest.get_path_medias(), d.manifest.get_media_type("content.xml"))
    # ---- paragraphs / headings / lists / frames / toc / notes -----------------------------------
    E["paragraph.reads"] = with_each("descendant::text:p", lambda p: (p.inner_text, str(p), p.get_formatted_text(), p.text_recursive,
                                                                     p.search("a"), p.replace("a"), p.get_spans(), p.get_links(),
                                                                     p.serialize(pretty=True), p.style))
    E["paragraph.remove_spans"] = with_each("descendant::text:p[text:span]", lambda p: p.clone.remove_spans())
    E["header.reads"] = with_each("descendant::text:h", lambda h: (h.inner_text, str(h), h.get_formatted_text(), h.level))
    E["list.reads"] = with_each("descendant::text:list", lambda l: (l.get_formatted_text(), l.get_items(), str(l), l.get_item(position=0)))
    E["frame.reads"] = with_each("descendant::draw:frame", lambda f: (f.get_formatted_text(), f.name, f.size, f.position, f.text_content, f.get_image()))
    E["toc.reads"] = with_each("descendant::text:table-of-content", lambda t: (t.get_formatted_text(), t.name, t.get_title(), str(t)))
    E["note.reads"] = with_each("descendant::text:note", lambda n: (n.get_formatted_text(), n.note_id, n.citation, n.note_body, str(n)))
    E["annotation.reads"] = with_each("descendant::office:annotation", lambda a: (a.get_formatted_text(), a.note_body, a.creator, a.date, a.name))
    E["section.reads"] = with_each("descendant::text:section", lambda s: (s.get_formatted_text(), s.name, s.style))
    E["draw_page.reads"] = with_each("descendant::draw:page", lambda p: (p.get_formatted_text(), p.name, p.get_transition()))
    E["span.reads"] = with_each("descendant::text:span", lambda s: (s.inner_text, str(s), s.style, s.get_formatted_text()))
    E["link.reads"] = with_each("descendant::text:a", lambda a: (a.url, a.name, str(a), a.get_formatted_text()))
    # ---- tables ------------------------------------------------------------------------------------
    T = {
        "get_values": lambda t: t.get_values(),
        "get_values(flat,type)": lambda t: t.get_values(flat=True, get_type=True),
        "get_values(cell_type)": lambda t: t.get_values(cell_type="all", complete=False),
        "iter_values": lambda t: list(t.iter_values()),
        "to_csv": lambda t: t.to_csv(),
        "str": lambda t: str(t),
        "get_formatted_text": lambda t: t.get_formatted_text(),
        "get_formatted_text(rst)": lambda t: t.get_formatted_text({"rst_mode": True, "document": None, "footnotes": [], "endnotes": [],
                                                                   "annotations": [], "img_counter": 0, "images": [], "no_img_level": 0}),
        "is_empty": lambda t: (t.is_empty(), t.is_empty(aggressive=True)),
        "size": lambda t: (t.size, t.width, t.height, t.name, t.style, t.protected, t.printable, t.print_ranges),
        "get_rows": lambda t: t.get_rows(),
        "rows": lambda t: t.rows,
        "cells": lambda t: t.cells,
        "get_cells": lambda t: t.get_cells(flat=True, cell_type="all"),
        "get_cells(content)": lambda t: t.get_cells(content="a"),
        "get_columns": lambda t: (t.get_columns(), t.columns, t.get_column(0)),
        "traverse": lambda t: [r.get_values() for r in t.traverse()],
        "get_row": lambda t: (t.get_row(0), t.get_row(t.height + 2), t.get_row_values(0) if t.height else None),
        "get_cell": lambda t: (t.get_cell((0, 0)), t.get_cell((t.width + 1, t.height + 1)), t.get_value((0, 0)), t.get_value("B2", get_type=True)),
        "get_column_cells": lambda t: (t.get_column_cells(0), t.get_column_values(0), t.get_column_values(0, cell_type="all", complete=False)),
        "is_row_empty": lambda t: (t.is_row_empty(0) if t.height else None, t.is_column_empty(0)),
        "get_row_sub_elements": lambda t: t.get_row_sub_elements(0) if t.height else None,
        "get_named_ranges": lambda t: t.get_named_ranges(),
        "serialize": lambda t: (t.serialize(), t.serialize(pretty=True)),
        "clone": lambda t: t.clone,
        "search": lambda t: (t.search("a"), t.match("1"), t.replace("a")),
        "markdown": lambda t: t._md_export() if hasattr(t, "_md_export") else None,
    }
    for k, fn in T.items():
        E["table." + k] = with_table(fn)
    # coordinate-taking reads at positions chosen by the case: inside, last, at the edge, beyond, negative
    def pos(n, k):
        return [0, max(n - 1, 0), n, n + 2, -1 if n else 0, n // 2][k % 6]

    TI = {
        "get_row_values@": lambda t, k: (t.get_row_values(pos(t.height, k)), t.get_row_values(pos(t.height, k), cell_type="all", complete=False)),
        "get_row_sub_elements@": lambda t, k: t.get_row_sub_elements(pos(t.height, k)),
        "is_row_empty@": lambda t, k: (t.is_row_empty(pos(t.height, k)), t.is_row_empty(pos(t.height, k), aggressive=True)),
        "get_row@": lambda t, k: (t.get_row(pos(t.height, k)), t.get_row(str(pos(t.height, k // 2) + 1))),
        "get_rows@": lambda t, k: (t.get_rows((pos(t.height, k), pos(t.height, k) + 2)), t.get_rows(content="a"), t.get_rows(style="ro1")),
        "get_column@": lambda t, k: (t.get_column(pos(t.width, k)), t.get_columns((pos(t.width, k), pos(t.width, k) + 1))),
        "get_column_values@": lambda t, k: (t.get_column_values(pos(t.width, k)), t.get_column_cells(pos(t.width, k), cell_type="all", complete=False)),
        "is_column_empty@": lambda t, k: (t.is_column_empty(pos(t.width, k)), t.is_column_empty(pos(t.width, k), aggressive=True)),
        "get_cell@": lambda t, k: (t.get_cell((pos(t.width, k), pos(t.height, k // 6))), t.get_cell((pos(t.width, k // 6), pos(t.height, k)), keep_repeated=False)),
        "get_value@": lambda t, k: (t.get_value((pos(t.width, k), pos(t.height, k // 6))), t.get_value((pos(t.width, k // 6), pos(t.height, k)), get_type=True)),
        "get_cells@": lambda t, k: t.get_cells((pos(t.width, k), pos(t.height, k // 6), pos(t.width, k) + 2, pos(t.height, k // 6) + 2), flat=bool(k % 2)),
        "get_values@": lambda t, k: t.get_values((pos(t.width, k), pos(t.height, k // 6), pos(t.width, k) + 2, pos(t.height, k // 6) + 2), complete=bool(k % 2)),
        "traverse@": lambda t, k: ([r.get_values() for r in t.traverse(pos(t.height, k), pos(t.height, k) + 1)],
                                   [c.x for c in t.traverse_columns(pos(t.width, k), pos(t.width, k) + 1)]),
        "cell-props@": lambda t, k: [(c.is_spanned(), c.is_empty(), c.is_empty(aggressive=True), c.type, c.formula, c.currency, c.value, c.string if c.type == "string" else None)
                                     for c in t.get_cells((0, pos(t.height, k), 4, pos(t.height, k) + 1), flat=True)],
    }
    for k_, fn in TI.items():
        E["table." + k_] = (lambda fn: (lambda d, i=0: (lambda ts: fn(ts[i % len(ts)], i // max(len(ts), 1)) if ts else None)(_tables(d))))(fn)
    RI = {
        "get_cell@": lambda r, k: (r.get_cell(pos(r.width, k)), r.get_value(pos(r.width, k)), r.get_value(pos(r.width, k), get_type=True)),
        "get_cells@": lambda r, k: (r.get_cells((pos(r.width, k), pos(r.width, k) + 2)), r.get_values((pos(r.width, k), pos(r.width, k) + 2))),
        "traverse@": lambda r, k: [c.get_value() for c in r.traverse(pos(r.width, k), pos(r.width, k) + 2)],
        "get_sub_elements@": lambda r, k: (r.get_sub_elements(), r.is_empty()),
    }

    def with_row_i(fn):
        def f(d, i=0):
            ts = [t for t in _tables(d) if t.height]
            if not ts:
                return None
            t = ts[i % len(ts)]
            return fn(t.get_row((i // len(ts)) % t.height, clone=False), i // 3)
        return f

    for k_, fn in RI.items():
        E["row." + k_] = with_row_i(fn)
    R = {
        "get_values": lambda r: (r.get_values(), r.get_values(cell_type="all"), r.get_values((0, 1), get_type=True)),
        "cells": lambda r: (r.cells, r.get_cells(), r.get_cells(cell_type="all", content="a")),
        "is_empty": lambda r: (r.is_empty(), r.is_empty(aggressive=True), r.width, r.repeated, r.style),
        "get_cell": lambda r: (r.get_cell(0), r.get_cell(r.width + 3), r.get_value(0), r.get_value(1, get_type=True)),
        "traverse": lambda r: (list(r.traverse()), list(r.traverse(1, 2))),
        "get_sub_elements": lambda r: r.get_sub_elements(),
        "minimized_width": lambda r: (r.minimized_width(), r.last_cell()),
        "serialize": lambda r: r.serialize(),
    }
    for k, fn in R.items():
        E["row." + k] = with_row(fn)
    return E


def snapshot(doc):
    out = {}
    for short in ("content", "styles", "meta", "settings", "manifest"):
        out[short] = doc.get_part(short).serialize()
    for name in sorted(doc.get_parts()):
        if name.endswith("/") or name.endswith(".xml") or name == "mimetype":
            continue
        if name.startswith(("Pictures/", "Thumbnails/", "ObjectReplacements/")):
            try:
                out[name] = doc.get_part(name)
            except Exception:
                out[name] = None
    out["mimetype"] = doc.mimetype
    return out


def generated_doc(spec):
    from odfdo import Cell, Document, Frame, Header, List, Note, Paragraph, Row, Span, Table
    from odfdo.toc import TOC

    if spec["type"] == "spreadsheet":
        doc = Document("spreadsheet")
        doc.body.clear()
    else:
        doc = Document("text")
        doc.body.clear()
        doc.body.append(TOC())
        doc.body.append(Header(1, "Title a"))
        from odfdo import Style

        doc.insert_style(Style("text", name="bold", bold=True), automatic=True)
        p = Paragraph("para a  with  blanks\tand tab")
        p.set_span("bold", regex="with")
        p.insert_note(after="para", note_id="n1", citation="1", body="note a")
        doc.body.append(p)
        # notes without citation (the export then numbers them itself), a footnote inside a span and an endnote in a heading
        p2 = Paragraph("para b ")
        p2.append(Note("footnote", note_id="n2", body="uncited note"))
        sp = Span("in span")
        sp.append(Note("endnote", note_id="n3", body="uncited endnote"))
        p2.append(sp)
        doc.body.append(p2)
        doc.body.append(List(["a", "b"]))
        doc.body.append(Header(2, "Sub a"))
    places = spec.get("places") or []
    for ti, rows in enumerate(spec["tables"]):
        t = Table(f"T{ti}")
        for r in rows:
            row = Row()
            for (v, rep, style) in r["cells"]:
                row.append_cell(Cell(v, repeated=rep if rep > 1 else None, style=style))
            if r["rep"] > 1:
                row.repeated = r["rep"]
            t.append_row(row)
        # more column declarations than the widest row holds (valid ODF: e.g. after append_column)
        for _ in range((spec.get("extra_cols") or [0])[ti % len(spec.get("extra_cols") or [0])]):
            from odfdo import Column

            t.append_column(Column())
        place = places[ti % len(places)] if places else "body"
        if spec["type"] != "text" or place == "body":
            doc.body.append(t)
        elif place == "frame-in-header":
            frame = Frame.text_frame([Paragraph("boxed"), t], size=("5cm", "3cm"), anchor_type="as-char", name=f"box{ti}")
            h = Header(1, f"Boxed {ti} ")
            h.append(frame)
            doc.body.append(h)
        elif place == "frame-in-paragraph":
            frame = Frame.text_frame([t], size=("5cm", "3cm"), anchor_type="paragraph", name=f"box{ti}")
            para = Paragraph(f"holder {ti}")
            para.append(frame)
            doc.body.append(para)
        elif place == "nested":
            outer = Table(f"Outer{ti}", width=2, height=2)
            cell = Cell()
            cell.append(Paragraph("in cell"))
            cell.append(t)
            outer.set_cell((1, 0), cell)
            outer.set_value((0, 0), "o")
            doc.body.append(outer)
        else:  # section
            from odfdo import Section

            sec = Section(name=f"sec{ti}")
            sec.append(t)
            doc.body.append(sec)
        if spec["type"] == "text":
            doc.body.append(Paragraph(f"after {ti}"))
    if spec["type"] == "text":
        doc.body.get_toc(position=0).fill(doc) if hasattr(doc.body, "get_toc") else None
    return doc


def open_doc(src):
    from odfdo import Document

    if src["kind"] == "template":
        return Document(src["name"])
    if src["kind"] == "sample":
        data = (corpus.samples_dir() / src["name"]).read_bytes()
        return Document(io.BytesIO(data))
    return generated_doc(src["spec"])


def run_case(case, ctx):
    E = entries()
    with ctx.guard(("C15", "open", "exception"), case):
        doc = open_doc(case["source"])
        snap = snapshot(doc)
    nt = case["source"]["kind"] == "generated"
    if not nt:
        try:
            root = odfread.parse(snap["content"])
            nt = any(True for _ in root.iter(odfread.T_NOTE)) or any(True for _ in root.iter(odfread.q("text:table-of-content"))) or any(
                c.get(odfread.A_COLREP) for c in root.iter(odfread.T_CELL))
        except Exception:
            pass
    for name, i in case["program"]:
        fn = E.get(name)
        if fn is None:
            continue
        ctx.ev()
        ctx.count("entry:" + name.split(".")[0])
        res = []
        for _rep in range(2):
            try:
                res.append(("ok", stable(fn(doc, i))))
            except Exception as e:  # an unsupported document type may raise: purity is still demanded
                res.append(("raised", type(e).__name__))
            after = snapshot(doc)
            if after != snap:
                changed = [k for k in snap if after.get(k) != snap[k]] + [k for k in after if k not in snap]
                ctx.fail(("C15", name, "modifies-document"),
                         f"{name} changed {changed} of {case['source']} (call #{_rep + 1}, outcome {res[-1][0]})", case)
        ctx.count("outcome:" + res[0][0] + ":" + case["source"]["kind"])
        ctx.check(res[0] == res[1], ("C15", name, "unstable-answer"),
                  f"{name} answered differently the second time: {str(res[0])[:200]} / {str(res[1])[:200]}", case)
    if nt:
        ctx.nontrivial(case)


def replay(case, ctx):
    try:
        run_case(case, ctx)
    except Abandon:
        pass


def discovery():
    """public get_/is_/to_/as_/search* methods not present in the table (informational)."""
    import inspect

    from odfdo import Document, Element, Row, Table
    from odfdo.meta import Meta

    table_text = " ".join(entries())
    src = inspect.getsource(entries)
    missing = []
    for cls in (Document, Meta, Element, Table, Row):
        for n, _m in inspect.getmembers(cls, predicate=inspect.isfunction):
            if n.startswith(("get_", "is_", "to_", "as_", "search")) and (n + "(") not in src and ("." + n) not in src and f'"{n}"' not in src:
                missing.append(f"{cls.__name__}.{n}")
    return missing


def bounded_tables(path, limit=6000):
    """the property quantifies over documents with bounded table sizes: whole-body exports expand every repetition"""
    import zipfile

    try:
        with zipfile.ZipFile(path) as z:
            root = odfread.parse(z.read("content.xml"))
    except Exception:
        return False
    total = 0
    for t in root.iter(odfread.T_TABLE):
        ncols, nrows, widest = odfread.table_dims(t)
        total += nrows * max(ncols, widest, 1)
    return total <= limit


def run_shard(ctx):
    E = entries()
    names = sorted(E)
    srcs = [{"kind": "template", "name": t} for t in corpus.TEMPLATES]
    srcs += [{"kind": "sample", "name": p.name} for p in corpus.sample_files()
             if p.stat().st_size < (200_000 if ctx.thorough else 60_000) and bounded_tables(p, 12000 if ctx.thorough else 6000)]
    if ctx.shard == 0:
        ctx.extra["corpus_documents"] = len(srcs)
    cellv = st.tuples(st.sampled_from([None, None, 1, "a", "", True, 2.5]), st.integers(1, 4), st.sampled_from([None, None, "ce1"]))
    emptyv = st.tuples(st.just(None), st.integers(1, 4), st.sampled_from([None, None, "ce1"]))
    rowd = lambda cv: st.fixed_dictionaries({"cells": st.lists(cv, min_size=1, max_size=5), "rep": st.integers(1, 3)})  # noqa: E731
    random_table = st.lists(rowd(cellv), min_size=1, max_size=5)
    empty_table = st.lists(rowd(emptyv), min_size=1, max_size=3)
    # values first, then trailing empty cells and rows (what rstrip / exports like to trim)
    trailing_row = st.tuples(st.lists(cellv, min_size=1, max_size=3), st.lists(emptyv, min_size=1, max_size=3), st.integers(1, 3)).map(
        lambda p: {"cells": p[0] + p[1], "rep": p[2]})
    trailing_table = st.tuples(st.lists(trailing_row, min_size=1, max_size=3), st.lists(rowd(emptyv), min_size=1, max_size=2)).map(lambda p: p[0] + p[1])
    gen = st.fixed_dictionaries({"kind": st.just("generated"), "spec": st.fixed_dictionaries({
        "type": st.sampled_from(["text", "text", "spreadsheet"]),
        "places": st.lists(st.sampled_from(["body", "body", "frame-in-header", "frame-in-paragraph", "nested", "section"]), min_size=1, max_size=4),
        "extra_cols": st.lists(st.sampled_from([0, 0, 1, 2]), min_size=1, max_size=3),
        "tables": st.lists(st.one_of(random_table, empty_table, trailing_table), min_size=1, max_size=4)})})
    whole = [n for n in names if n.startswith(("doc.get_formatted_text", "doc.to_markdown", "doc.str", "body.get_formatted_text", "body.inner_text",
                                                "body.text_recursive", "doc.get_formated_meta", "doc.show_styles"))] or names
    if ctx.shard == 0:
        ctx.extra["whole_document_entries"] = ", ".join(whole)
    cases = st.fixed_dictionaries({
        "source": st.one_of(st.sampled_from(srcs), gen, gen),
        "program": st.lists(st.tuples(st.one_of(st.sampled_from(names), st.sampled_from(names), st.sampled_from(whole)), st.integers(0, 71)),
                            min_size=1, max_size=12)})

    def mk():
        @given(cases)
        def t(case):
            try:
                run_case(case, ctx)
                ctx.maybe_sample(case, 2000)
            except Abandon:
                pass
        return t

    if ctx.shard == 0:
        ctx.extra["unclassified_entry_points"] = ", ".join(discovery()[:80])
        ctx.extra["entry_points_in_table"] = len(names)
    ctx.run_given(mk, ctx.budget(9000, 45000))
